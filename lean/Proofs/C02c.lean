/-
  C02 (field level, concentration) — the Green's function of the concentration reproduces the concentration
  above background at the tower:  Σ q_pad · (G_fp − bg) = conc_disp(tower cell) − bg,  whole pipeline.
-/
import Proofs.C02b
import Proofs.C04b

open BLDFM BLDFM.Spec BLDFM.Index

namespace BLDFM.C02

/-- spectral core of the reciprocity, for an arbitrary per-slot transfer `W` -/
theorem recip_core (rd : SolveReq ℝ) (hg : GeomOK (geom RC rd)) (hfp : rd.footprint = false)
    (W : ℕ → ℕ → ℂ) (im jm : ℕ) :
    let g := geom RC rd
    ∑ J ∈ Finset.range g.nye, ∑ I ∈ Finset.range g.nxe, padSrc RC rd g J I *
      ∑ a ∈ Finset.range g.nly, ∑ b ∈ Finset.range g.nlx,
        ((1 / ((g.nxe : ℂ) * (g.nye : ℂ))) * W a b *
          (rootPow g.nxe (sfreq g.nlx b * ((im + g.px : ℕ) : ℤ)) * rootPow g.nye (sfreq g.nly a * ((jm + g.py : ℕ) : ℤ))))
          * rootPow g.nxe (-1 * sfreq g.nlx b * I) * rootPow g.nye (-1 * sfreq g.nly a * J)
    = ∑ a ∈ Finset.range g.nly, ∑ b ∈ Finset.range g.nlx,
        ((srcSpectrum RC rd g).get a b * W a b)
          * rootPow g.nxe (1 * sfreq g.nlx b * ((im + g.px : ℕ) : ℤ)) * rootPow g.nye (1 * sfreq g.nly a * ((jm + g.py : ℕ) : ℤ)) := by
  intro g
  have hNx := hg.Nx_pos
  have hNy := hg.Ny_pos
  have hL : ∀ (T : ℕ → ℕ → ℂ), ∑ J ∈ Finset.range g.nye, ∑ I ∈ Finset.range g.nxe, padSrc RC rd g J I *
      ∑ a ∈ Finset.range g.nly, ∑ b ∈ Finset.range g.nlx,
        T a b * rootPow g.nxe (-1 * sfreq g.nlx b * I) * rootPow g.nye (-1 * sfreq g.nly a * J)
      = ∑ a ∈ Finset.range g.nly, ∑ b ∈ Finset.range g.nlx,
        T a b * ∑ J ∈ Finset.range g.nye, (∑ I ∈ Finset.range g.nxe,
            padSrc RC rd g J I * rootPow g.nxe (-(sfreq g.nlx b * I))) * rootPow g.nye (-(sfreq g.nly a * J)) := by
    intro T
    simp only [Finset.mul_sum]
    rw [sum4_comm]
    apply Finset.sum_congr rfl; intro a _
    apply Finset.sum_congr rfl; intro b _
    apply Finset.sum_congr rfl; intro J _
    rw [Finset.sum_mul, Finset.mul_sum]
    apply Finset.sum_congr rfl; intro I _
    have e1 : (-1 * sfreq g.nlx b * (I : ℤ)) = -(sfreq g.nlx b * I) := by ring
    have e2 : (-1 * sfreq g.nly a * (J : ℤ)) = -(sfreq g.nly a * J) := by ring
    rw [e1, e2]
    ring
  rw [hL]
  apply Finset.sum_congr rfl; intro a ha
  apply Finset.sum_congr rfl; intro b hb
  rw [srcSpectrum_formula rd hg hfp a b (Finset.mem_range.mp ha) (Finset.mem_range.mp hb)]
  have hx : ((g.nxe : ℕ) : ℂ) ≠ 0 := by exact_mod_cast hNx.ne'
  have hy : ((g.nye : ℕ) : ℂ) ≠ 0 := by exact_mod_cast hNy.ne'
  have e1 : (1 * sfreq g.nlx b * ((im + g.px : ℕ) : ℤ)) = sfreq g.nlx b * ((im + g.px : ℕ) : ℤ) := by ring
  have e2 : (1 * sfreq g.nly a * ((jm + g.py : ℕ) : ℤ)) = sfreq g.nly a * ((jm + g.py : ℕ) : ℤ) := by ring
  rw [e1, e2]
  have hgdef : g = geom RC rd := rfl
  simp only [hgdef] at hx hy ⊢
  field_simp

/-- the DC slot contributes the constant `bg` to every cell (both signs) -/
theorem bg_term (s : ℤ) (g : Geom ℝ) (hg : GeomOK g) (bg : ℂ) (ph : ℕ → ℕ → ℂ) (hph : ph 0 0 = 1) (J I : ℕ) :
    ∑ a ∈ Finset.range g.nly, ∑ b ∈ Finset.range g.nlx,
      ((if a = 0 ∧ b = 0 then bg else 0) * ph a b) * rootPow g.nxe (s * sfreq g.nlx b * I) * rootPow g.nye (s * sfreq g.nly a * J)
      = bg := by
  have f0x : sfreq g.nlx 0 = 0 := by unfold sfreq; rw [if_pos (by have := hg.adx.1; omega)]; rfl
  have f0y : sfreq g.nly 0 = 0 := by unfold sfreq; rw [if_pos (by have := hg.ady.1; omega)]; rfl
  rw [Finset.sum_eq_single_of_mem 0 (Finset.mem_range.mpr hg.ady.1)]
  · rw [Finset.sum_eq_single_of_mem 0 (Finset.mem_range.mpr hg.adx.1)]
    · simp [f0x, f0y, hph, rootPow_zero]
    · intro b _ hb0; simp [hb0]
  · intro a _ ha0
    apply Finset.sum_eq_zero; intro b _
    simp [ha0]

/-- FOOTPRINT RECIPROCITY (concentration above background), whole pipeline -/
theorem footprint_reciprocity_conc (rd : SolveReq ℝ) (hg : GeomOK (geom RC rd)) (hp : rd.precision = .double)
    (hden : DenOK rd) (hfp : rd.footprint = false) (hxm : rd.xm = 0) (hym : rd.ym = 0) (im jm l : ℕ)
    (hdx : (geom RC rd).dx ≠ 0) (hdy : (geom RC rd).dy ≠ 0) :
    let g := geom RC rd
    let rf : SolveReq ℝ := { rd with footprint := true, xm := im * g.dx, ym := jm * g.dy }
    ∑ J ∈ Finset.range g.nye, ∑ I ∈ Finset.range g.nxe,
        padSrc RC rd g J I * ((fieldsAt RC rf g (srcSpectrum RC rf g).get l).1.get J I - (rd.bg : ℂ))
      = (fieldsAt RC rd g (srcSpectrum RC rd g).get l).1.get (jm + g.py) (im + g.px) - (rd.bg : ℂ) := by
  intro g rf
  have hNx := hg.Nx_pos
  have hNy := hg.Ny_pos
  have hgf : geom RC rf = g := rfl
  have hrf_fp : rf.footprint = true := rfl
  have hpf : rf.precision = .double := hp
  have hdenf : DenOK rf := hden
  have hWp : ∀ a b, C04.Wp rf g l a b = C04.Wp rd g l a b := fun a b => rfl
  have hbgf : rf.bg = rd.bg := rfl
  -- coefficient tables, split into the transfer part and the background part
  have hcoef_f : ∀ a b, a < g.nly → b < g.nlx →
      (modeCoef RC rf g (srcSpectrum RC rf g).get l a b).1 * shiftFactor RC rf g a b
        = (1 / ((g.nxe : ℂ) * (g.nye : ℂ))) * C04.Wp rd g l a b *
            (rootPow g.nxe (sfreq g.nlx b * ((im + g.px : ℕ) : ℤ)) * rootPow g.nye (sfreq g.nly a * ((jm + g.py : ℕ) : ℤ)))
          + (if a = 0 ∧ b = 0 then (rd.bg : ℂ) else 0) * shiftFactor RC rf g a b := by
    intro a b ha hb
    have h1 := C04.conc_coef rf hpf hdenf (srcSpectrum RC rf g).get l a b
    have h2 := C03.footprint_unit_spectrum rf hrf_fp a b hNx hNy
    have h3 := C06.footprint_phase_on_grid rf hrf_fp a b im jm rfl rfl ha hb hdx hdy hNx hNy
    rw [hgf] at h1 h2 h3
    rw [h1, h2, hWp, hbgf, add_mul]
    congr 1
    rw [h3]
  have hcoef_d : ∀ a b,
      (modeCoef RC rd g (srcSpectrum RC rd g).get l a b).1 * shiftFactor RC rd g a b
        = (srcSpectrum RC rd g).get a b * C04.Wp rd g l a b + (if a = 0 ∧ b = 0 then (rd.bg : ℂ) else 0) * 1 := by
    intro a b
    rw [C04.conc_coef rd hp hden, C06.recentre_guard_origin rd hfp hxm hym, mul_one, mul_one]
  have hph_f : shiftFactor RC rf g 0 0 = 1 := by
    have := C03.dc_phase_unit rf hg.adx.1 hg.ady.1
    rw [hgf] at this; exact this
  -- the two fields
  have hFf : ∀ J I, (fieldsAt RC rf g (srcSpectrum RC rf g).get l).1.get J I - (rd.bg : ℂ) =
      ∑ a ∈ Finset.range g.nly, ∑ b ∈ Finset.range g.nlx,
        ((1 / ((g.nxe : ℂ) * (g.nye : ℂ))) * C04.Wp rd g l a b *
            (rootPow g.nxe (sfreq g.nlx b * ((im + g.px : ℕ) : ℤ)) * rootPow g.nye (sfreq g.nly a * ((jm + g.py : ℕ) : ℤ))))
          * rootPow g.nxe (-1 * sfreq g.nlx b * I) * rootPow g.nye (-1 * sfreq g.nly a * J) := by
    intro J I
    rw [(C03.fieldsAt_eq rf g _ l).1]
    have := solver_repr (-1) (-1.0) (Or.inr ⟨rfl, rfl⟩) g hg
      (fun a b => (modeCoef RC rf g (srcSpectrum RC rf g).get l a b).1 * shiftFactor RC rf g a b) J I
    simp only [hrf_fp, if_true] at this ⊢
    rw [this]
    have hsplit : ∀ a ∈ Finset.range g.nly, ∀ b ∈ Finset.range g.nlx,
        (modeCoef RC rf g (srcSpectrum RC rf g).get l a b).1 * shiftFactor RC rf g a b
            * rootPow g.nxe (-1 * sfreq g.nlx b * I) * rootPow g.nye (-1 * sfreq g.nly a * J)
        = ((1 / ((g.nxe : ℂ) * (g.nye : ℂ))) * C04.Wp rd g l a b *
            (rootPow g.nxe (sfreq g.nlx b * ((im + g.px : ℕ) : ℤ)) * rootPow g.nye (sfreq g.nly a * ((jm + g.py : ℕ) : ℤ))))
            * rootPow g.nxe (-1 * sfreq g.nlx b * I) * rootPow g.nye (-1 * sfreq g.nly a * J)
          + ((if a = 0 ∧ b = 0 then (rd.bg : ℂ) else 0) * shiftFactor RC rf g a b)
            * rootPow g.nxe (-1 * sfreq g.nlx b * I) * rootPow g.nye (-1 * sfreq g.nly a * J) := by
      intro a ha b hb
      rw [hcoef_f a b (Finset.mem_range.mp ha) (Finset.mem_range.mp hb)]
      ring
    rw [Finset.sum_congr rfl (fun a ha => Finset.sum_congr rfl (fun b hb => hsplit a ha b hb))]
    simp only [Finset.sum_add_distrib]
    rw [bg_term (-1) g hg (rd.bg : ℂ) (shiftFactor RC rf g) hph_f J I]
    ring
  have hFd : (fieldsAt RC rd g (srcSpectrum RC rd g).get l).1.get (jm + g.py) (im + g.px) - (rd.bg : ℂ) =
      ∑ a ∈ Finset.range g.nly, ∑ b ∈ Finset.range g.nlx,
        ((srcSpectrum RC rd g).get a b * C04.Wp rd g l a b)
          * rootPow g.nxe (1 * sfreq g.nlx b * ((im + g.px : ℕ) : ℤ)) * rootPow g.nye (1 * sfreq g.nly a * ((jm + g.py : ℕ) : ℤ)) := by
    rw [(C03.fieldsAt_eq rd g _ l).1]
    have := solver_repr 1 1.0 (Or.inl ⟨rfl, rfl⟩) g hg
      (fun a b => (modeCoef RC rd g (srcSpectrum RC rd g).get l a b).1 * shiftFactor RC rd g a b) (jm + g.py) (im + g.px)
    simp only [hfp, Bool.false_eq_true, if_false] at this ⊢
    rw [this]
    have hsplit : ∀ a ∈ Finset.range g.nly, ∀ b ∈ Finset.range g.nlx,
        (modeCoef RC rd g (srcSpectrum RC rd g).get l a b).1 * shiftFactor RC rd g a b
            * rootPow g.nxe (1 * sfreq g.nlx b * ((im + g.px : ℕ) : ℤ)) * rootPow g.nye (1 * sfreq g.nly a * ((jm + g.py : ℕ) : ℤ))
        = ((srcSpectrum RC rd g).get a b * C04.Wp rd g l a b)
            * rootPow g.nxe (1 * sfreq g.nlx b * ((im + g.px : ℕ) : ℤ)) * rootPow g.nye (1 * sfreq g.nly a * ((jm + g.py : ℕ) : ℤ))
          + ((if a = 0 ∧ b = 0 then (rd.bg : ℂ) else 0) * (fun _ _ => (1 : ℂ)) a b)
            * rootPow g.nxe (1 * sfreq g.nlx b * ((im + g.px : ℕ) : ℤ)) * rootPow g.nye (1 * sfreq g.nly a * ((jm + g.py : ℕ) : ℤ)) := by
      intro a _ b _
      rw [hcoef_d a b]
      ring
    rw [Finset.sum_congr rfl (fun a ha => Finset.sum_congr rfl (fun b hb => hsplit a ha b hb))]
    simp only [Finset.sum_add_distrib]
    rw [bg_term 1 g hg (rd.bg : ℂ) (fun _ _ => (1 : ℂ)) rfl (jm + g.py) (im + g.px)]
    ring
  simp only [hFf]
  rw [hFd]
  exact recip_core rd hg hfp (C04.Wp rd g l) im jm

end BLDFM.C02
