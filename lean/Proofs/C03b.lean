/-
  C03 (field level) — through the whole model pipeline (pad, transform, truncate, sweep, shift,
  un-truncate, inverse transform): at EVERY output level the sum of the flux field over the full periodic
  (halo-padded) domain equals the sum of the surface flux; the concentration field sums to
  `Nx·Ny·bg − (Σ q)·R_l`; in footprint mode the weights over the padded domain sum to exactly one.
-/
import Proofs.Lemmas.Spec
import Proofs.Lemmas.Tactics
import Proofs.Lemmas.Repr
import Proofs.Lemmas.Ortho
import Proofs.C03
import Proofs.C11

open BLDFM BLDFM.Spec BLDFM.Index

namespace BLDFM.C03

/-- the hypotheses of the field-level theorems follow from the request alone -/
theorem geomOK_of_request (req : SolveReq ℝ) (hnx : 0 < req.nx) (hny : 0 < req.ny)
    (hex : req.nlx % 2 = 0) (hey : req.nly % 2 = 0) (hpx : 0 < req.nlx) (hpy : 0 < req.nly) :
    GeomOK (geom RC req) := by
  obtain ⟨hy, hx, hdy, hdx⟩ := C11.geom_admissible req hnx hny hex hey hpx hpy
  exact ⟨hy, hx, hdy, hdx⟩

theorem signPair_of (fp : Bool) : SignPair (if fp then -1 else 1) (if fp then (-1.0 : ℝ) else 1.0) := by
  cases fp
  · left; exact ⟨rfl, rfl⟩
  · right; exact ⟨rfl, rfl⟩

/-- the two padded-domain fields of `fieldsAt` are the transforms of the un-truncated, shifted coefficient tables -/
theorem fieldsAt_eq (req : SolveReq ℝ) (g : Geom ℝ) (S : ℕ → ℕ → ℂ) (l : ℕ) :
    (fieldsAt RC req g S l).1 = dft2 RC (if req.footprint then (-1.0 : ℝ) else 1.0) g.nye g.nxe
        (untrunc g (fun a b => (modeCoef RC req g S l a b).1 * shiftFactor RC req g a b)) ∧
    (fieldsAt RC req g S l).2 = dft2 RC (if req.footprint then (-1.0 : ℝ) else 1.0) g.nye g.nxe
        (untrunc g (fun a b => (modeCoef RC req g S l a b).2 * shiftFactor RC req g a b)) := by
  simp only [fieldsAt]
  constructor
  · congr 1; funext A B; simp only [Tab2.get_tab]
  · congr 1; funext A B; simp only [Tab2.get_tab]

/-- FLUX CONSERVATION: the flux field summed over the full padded domain is `Nx·Ny·q̂₀₀`, at every level,
in both modes, numeric and analytic, for every profile set, truncation, halo and parity -/
theorem flux_sum_padded (req : SolveReq ℝ) (hg : GeomOK (geom RC req)) (hp : req.precision = .double)
    (S : ℕ → ℕ → ℂ) (l : ℕ) :
    let g := geom RC req
    ∑ j ∈ Finset.range g.nye, ∑ i ∈ Finset.range g.nxe, (fieldsAt RC req g S l).2.get j i
      = (g.nye : ℂ) * (g.nxe : ℂ) * S 0 0 := by
  intro g
  rw [(fieldsAt_eq req g S l).2, field_sum_eq_dc _ _ (signPair_of req.footprint) g hg]
  rw [dc_flux_conserved req S l hp, dc_phase_unit req hg.adx.1 hg.ady.1, mul_one]

/-- CONCENTRATION: the concentration field summed over the padded domain is `Nx·Ny·(bg − q̂₀₀ R_l)` -/
theorem conc_sum_padded (req : SolveReq ℝ) (hg : GeomOK (geom RC req)) (hp : req.precision = .double)
    (S : ℕ → ℕ → ℂ) (l : ℕ) :
    let g := geom RC req
    ∑ j ∈ Finset.range g.nye, ∑ i ∈ Finset.range g.nxe, (fieldsAt RC req g S l).1.get j i
      = (g.nye : ℂ) * (g.nxe : ℂ) * (modeCoef RC req g S l 0 0).1 := by
  intro g
  rw [(fieldsAt_eq req g S l).1, field_sum_eq_dc _ _ (signPair_of req.footprint) g hg]
  rw [dc_phase_unit req hg.adx.1 hg.ady.1, mul_one]

/-- FOOTPRINT WEIGHTS SUM TO ONE over the full padded domain, at every level -/
theorem footprint_unit_sum (req : SolveReq ℝ) (hg : GeomOK (geom RC req)) (hp : req.precision = .double)
    (hfp : req.footprint = true) (l : ℕ) :
    let g := geom RC req
    ∑ j ∈ Finset.range g.nye, ∑ i ∈ Finset.range g.nxe,
      (fieldsAt RC req g (srcSpectrum RC req g).get l).2.get j i = 1 := by
  intro g
  rw [flux_sum_padded req hg hp, footprint_unit_spectrum req hfp 0 0 hg.Nx_pos hg.Ny_pos]
  have hx : (((geom RC req).nxe : ℕ) : ℂ) ≠ 0 := by exact_mod_cast hg.Nx_pos.ne'
  have hy : (((geom RC req).nye : ℕ) : ℂ) ≠ 0 := by exact_mod_cast hg.Ny_pos.ne'
  field_simp

/-- the zero-frequency coefficient of the source spectrum is the mean of the padded source -/
theorem dc_source_is_mean (req : SolveReq ℝ) (hg : GeomOK (geom RC req)) (hfp : req.footprint = false) :
    let g := geom RC req
    (srcSpectrum RC req g).get 0 0 =
      (∑ j ∈ Finset.range g.nye, ∑ i ∈ Finset.range g.nxe, padSrc RC req g j i) / ((g.nye : ℂ) * (g.nxe : ℂ)) := by
  intro g
  have t0y : truncSrc g.nye g.nly g.dly 0 = 0 := by
    rw [hg.hdy, trunc_index _ _ _ hg.ady hg.ady.1]
    unfold slotPos; rw [if_pos]; have := hg.ady.1; omega
  have t0x : truncSrc g.nxe g.nlx g.dlx 0 = 0 := by
    rw [hg.hdx, trunc_index _ _ _ hg.adx hg.adx.1]
    unfold slotPos; rw [if_pos]; have := hg.adx.1; omega
  simp only [srcSpectrum, hfp, Bool.false_eq_true, if_false, Tab2.get_tab, t0y, t0x]
  rw [dft2_neg _ _ hg.Ny_pos hg.Nx_pos]
  simp only [Nat.cast_zero, zero_mul, neg_zero, rootPow_zero, mul_one]
  rc_norm
  push_cast
  have hx : (((geom RC req).nxe : ℕ) : ℂ) ≠ 0 := by exact_mod_cast hg.Nx_pos.ne'
  have hy : (((geom RC req).nye : ℕ) : ℂ) ≠ 0 := by exact_mod_cast hg.Ny_pos.ne'
  norm_num
  field_simp
  rfl

/-- MEAN FLUX = MEAN SURFACE FLUX (dispersion mode): the flux summed over the full padded domain equals the
padded source summed over the same domain, at every level -/
theorem mean_flux_conserved (req : SolveReq ℝ) (hg : GeomOK (geom RC req)) (hp : req.precision = .double)
    (hfp : req.footprint = false) (l : ℕ) :
    let g := geom RC req
    ∑ j ∈ Finset.range g.nye, ∑ i ∈ Finset.range g.nxe,
      (fieldsAt RC req g (srcSpectrum RC req g).get l).2.get j i
    = ∑ j ∈ Finset.range g.nye, ∑ i ∈ Finset.range g.nxe, padSrc RC req g j i := by
  intro g
  rw [flux_sum_padded req hg hp, dc_source_is_mean req hg hfp]
  have hx : (((geom RC req).nxe : ℕ) : ℂ) ≠ 0 := by exact_mod_cast hg.Nx_pos.ne'
  have hy : (((geom RC req).nye : ℕ) : ℂ) ≠ 0 := by exact_mod_cast hg.Ny_pos.ne'
  field_simp
  rfl

end BLDFM.C03
