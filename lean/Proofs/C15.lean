/-
  C15 — the result cache is transparent, complete, effective and crash-safe: a refinement
  proof that the cached solver behaves like the cache-less one for EVERY history of requests,
  interrupted stores and process restarts, from ANY initial disk satisfying the invariant.
-/
import BLDFM
import Mathlib.Tactic.Ring
import Mathlib.Tactic.Linarith
import Mathlib.Tactic.SplitIfs

open BLDFM

namespace BLDFM.C15

variable {Res : Type}

/-- the configuration the properties need: every result-determining argument is hashed, both call
sites key on the resolved halo -/
def KeyComplete (cfg : CacheCfg) : Prop :=
  (∀ f ∈ Fld.determining, f ∈ cfg.keyFields) ∧ cfg.haloResolvedAtGet = true ∧ cfg.haloResolvedAtPut = true

/-- the solver's result depends only on the determining arguments (C04: not on the source values;
the default halo is a function of the domain) -/
def Sound (dflt : ℕ → ℕ) (solve : CReq → Res) : Prop :=
  ∀ r r', r.determ dflt = r'.determ dflt → solve r = solve r'

/-- key completeness: equal keys ⇒ equal determining arguments -/
theorem key_complete (cfg : CacheCfg) (dflt : ℕ → ℕ) (hk : KeyComplete cfg) (r r' : CReq)
    (h : r.key cfg dflt true = r'.key cfg dflt true) : r.determ dflt = r'.determ dflt := by
  unfold CReq.key at h
  unfold CReq.determ
  apply List.map_congr_left
  intro f hf
  have hmem := hk.1 f hf
  have := List.map_inj_left.mp h
  exact this f hmem

/-- every decodable entry holds the result of a request with that key -/
def Inv (cfg : CacheCfg) (dflt : ℕ → ℕ) (solve : CReq → Res) (d : Disk Res) : Prop :=
  ∀ k res, d.find k = some (.good res) → ∃ r : CReq, r.key cfg dflt true = k ∧ res = solve r

def Answer.value? : Answer Res → Option Res
  | .hit r => some r
  | .miss r => some r
  | .error => none

theorem find_cons (d : Disk Res) (k k' : List ℕ) (e : Entry Res) :
    Disk.find ((k', e) :: d) k = if k' = k then some e else d.find k := rfl

/-- one cached solve: the answer is the cache-less result, never an error, and the invariant is kept -/
theorem solveCached_correct (cfg : CacheCfg) (dflt : ℕ → ℕ) (solve : CReq → Res)
    (hk : KeyComplete cfg) (hs : Sound dflt solve) (hg : cfg.guardedLoad = true)
    (d : Disk Res) (hinv : Inv cfg dflt solve d) (r : CReq) :
    Answer.value? (solveCached cfg dflt solve d r).1 = some (solve r) ∧
      Inv cfg dflt solve (solveCached cfg dflt solve d r).2 := by
  obtain ⟨hkf, hget, hput⟩ := hk
  unfold solveCached
  simp only [hget, hput, hg, if_true]
  have hinv_put : Inv cfg dflt solve ((r.key cfg dflt true, Entry.good (solve r)) :: d) := by
    intro k res hfind
    rw [find_cons] at hfind
    split at hfind
    · rename_i heq
      cases hfind
      exact ⟨r, heq, rfl⟩
    · exact hinv k res hfind
  cases hfind : d.find (r.key cfg dflt true) with
  | none => exact ⟨rfl, hinv_put⟩
  | some e =>
    cases e with
    | good res =>
      obtain ⟨r', hkey, hres⟩ := hinv _ _ hfind
      have := hs r' r (key_complete cfg dflt ⟨hkf, hget, hput⟩ r' r hkey)
      simp only [Answer.value?]
      exact ⟨by rw [hres, this], hinv⟩
    | corrupt => exact ⟨rfl, hinv_put⟩

/-- pushing an undecodable entry keeps the invariant (it only speaks about decodable entries) -/
theorem push_corrupt_inv (cfg : CacheCfg) (dflt : ℕ → ℕ) (solve : CReq → Res) (d : Disk Res)
    (hinv : Inv cfg dflt solve d) (k : List ℕ) : Inv cfg dflt solve ((k, Entry.corrupt) :: d) := by
  intro k' res hfind
  rw [find_cons] at hfind
  split at hfind
  · cases hfind
  · exact hinv k' res hfind

/-- an interrupted store keeps the invariant (whatever the write protocol: a truncated file is not decodable) -/
theorem crash_keeps_inv (cfg : CacheCfg) (dflt : ℕ → ℕ) (solve : CReq → Res) (d : Disk Res)
    (hinv : Inv cfg dflt solve d) (r : CReq) : Inv cfg dflt solve (crashDuringPut cfg dflt d r) := by
  unfold crashDuringPut
  simp only []
  split_ifs
  · exact push_corrupt_inv cfg dflt solve d hinv _
  · exact hinv

/-- an entry truncated or corrupted from outside keeps the invariant -/
theorem truncate_keeps_inv (cfg : CacheCfg) (dflt : ℕ → ℕ) (solve : CReq → Res) (d : Disk Res)
    (hinv : Inv cfg dflt solve d) (r : CReq) : Inv cfg dflt solve (truncateEntry cfg dflt d r) := by
  unfold truncateEntry
  simp only []
  split
  · exact push_corrupt_inv cfg dflt solve d hinv _
  · exact hinv

def requestsOf : List COp → List CReq
  | [] => []
  | .request r :: ops => r :: requestsOf ops
  | .crash _ :: ops => requestsOf ops
  | .truncate _ :: ops => requestsOf ops
  | .restart :: ops => requestsOf ops

/-- TRANSPARENCY for every history: with a cache attached, every footprint solve returns exactly what
it would return without one — whatever was solved, stored, interrupted or restarted before, in this or an
earlier process (any initial disk satisfying the invariant, corrupt entries included) -/
theorem cache_transparent (cfg : CacheCfg) (dflt : ℕ → ℕ) (solve : CReq → Res)
    (hk : KeyComplete cfg) (hs : Sound dflt solve) (hg : cfg.guardedLoad = true)
    (ops : List COp) (d : Disk Res) (hinv : Inv cfg dflt solve d) :
    (runHistory cfg dflt solve d ops).1.map Answer.value? = (requestsOf ops).map (fun r => some (solve r)) ∧
      Inv cfg dflt solve (runHistory cfg dflt solve d ops).2 := by
  induction ops generalizing d with
  | nil => exact ⟨rfl, hinv⟩
  | cons op ops ih =>
    cases op with
    | request r =>
      obtain ⟨h1, h2⟩ := solveCached_correct cfg dflt solve hk hs hg d hinv r
      obtain ⟨i1, i2⟩ := ih _ h2
      simp only [runHistory, requestsOf, List.map_cons]
      exact ⟨by rw [h1, i1], i2⟩
    | crash r =>
      simp only [runHistory, requestsOf]
      exact ih _ (crash_keeps_inv cfg dflt solve d hinv r)
    | truncate r =>
      simp only [runHistory, requestsOf]
      exact ih _ (truncate_keeps_inv cfg dflt solve d hinv r)
    | restart =>
      simp only [runHistory, requestsOf]
      exact ih _ hinv

/-- a cached solve leaves the disk as it was or pushes one complete entry -/
theorem solveCached_disk (cfg : CacheCfg) (dflt : ℕ → ℕ) (solve : CReq → Res) (d : Disk Res) (r : CReq) :
    (solveCached cfg dflt solve d r).2 = d ∨
      ∃ k' res', (solveCached cfg dflt solve d r).2 = (k', Entry.good res') :: d := by
  cases h : d.find (r.key cfg dflt cfg.haloResolvedAtGet) with
  | none => right; exact ⟨r.key cfg dflt cfg.haloResolvedAtPut, solve r, by simp only [solveCached, h]⟩
  | some e =>
    cases e with
    | good res => left; simp only [solveCached, h]
    | corrupt =>
      by_cases hg : cfg.guardedLoad = true
      · right; exact ⟨r.key cfg dflt cfg.haloResolvedAtPut, solve r, by simp only [solveCached, h, hg, if_true]⟩
      · left; simp only [solveCached, h, hg]; rfl

/-- a complete entry is never lost: requests only add complete entries, and with the atomic write
protocol an interrupted store leaves the disk untouched -/
theorem good_entry_persists (cfg : CacheCfg) (dflt : ℕ → ℕ) (solve : CReq → Res) (ha : cfg.atomicWrite = true)
    (ops : List COp) (hnt : ∀ o ∈ ops, ∀ r, o ≠ COp.truncate r)
    (d : Disk Res) (k : List ℕ) (h : ∃ res, d.find k = some (.good res)) :
    ∃ res, (runHistory cfg dflt solve d ops).2.find k = some (.good res) := by
  induction ops generalizing d with
  | nil => exact h
  | cons op ops ih =>
    cases op with
    | request r =>
      simp only [runHistory]
      apply ih (fun o ho => hnt o (List.mem_cons_of_mem _ ho))
      obtain ⟨res, hres⟩ := h
      rcases solveCached_disk cfg dflt solve d r with he | ⟨k', res', he⟩
      · rw [he]; exact ⟨res, hres⟩
      · rw [he, find_cons]
        split
        · exact ⟨res', rfl⟩
        · exact ⟨res, hres⟩
    | crash r =>
      simp only [runHistory]
      apply ih (fun o ho => hnt o (List.mem_cons_of_mem _ ho))
      simp only [crashDuringPut, ha, Bool.not_true, Bool.and_false, Bool.false_eq_true, if_false]
      exact h
    | truncate r =>
      exact absurd rfl (hnt _ (List.mem_cons_self) r)
    | restart =>
      simp only [runHistory]
      exact ih (fun o ho => hnt o (List.mem_cons_of_mem _ ho)) _ h

/-- EFFECTIVENESS: once a request has completed, repeating the identical request later — after any
other requests, interrupted stores (atomic protocol) and restarts — is served from the cache -/
theorem cache_effective (cfg : CacheCfg) (dflt : ℕ → ℕ) (solve : CReq → Res)
    (hk : KeyComplete cfg) (hs : Sound dflt solve) (hg : cfg.guardedLoad = true) (ha : cfg.atomicWrite = true)
    (d : Disk Res) (hinv : Inv cfg dflt solve d) (r : CReq) (between : List COp)
    (hnt : ∀ o ∈ between, ∀ r', o ≠ COp.truncate r') :
    let d1 := (solveCached cfg dflt solve d r).2
    let d2 := (runHistory cfg dflt solve d1 between).2
    (solveCached cfg dflt solve d2 r).1 = .hit (solve r) := by
  intro d1 d2
  obtain ⟨hkf, hget, hput⟩ := hk
  have hstored : ∃ res, d1.find (r.key cfg dflt true) = some (.good res) := by
    simp only [d1]
    unfold solveCached
    simp only [hget, hput, hg, if_true]
    cases hfind : d.find (r.key cfg dflt true) with
    | none => exact ⟨solve r, by simp [find_cons]⟩
    | some e =>
      cases e with
      | good res => exact ⟨res, hfind⟩
      | corrupt => exact ⟨solve r, by simp [find_cons]⟩
  obtain ⟨res, hres⟩ := good_entry_persists cfg dflt solve ha between hnt d1 _ hstored
  have hinv1 := (solveCached_correct cfg dflt solve ⟨hkf, hget, hput⟩ hs hg d hinv r).2
  have hinv2 := (cache_transparent cfg dflt solve ⟨hkf, hget, hput⟩ hs hg between d1 hinv1).2
  obtain ⟨r', hkey, hval⟩ := hinv2 _ _ hres
  have hsame := hs r' r (key_complete cfg dflt ⟨hkf, hget, hput⟩ r' r hkey)
  unfold solveCached
  simp only [hget]
  have : Disk.find d2 (r.key cfg dflt true) = some (.good res) := hres
  rw [this, hval, hsame]

/-- CRASH SAFETY: with guarded loading no history ever produces an error, however corrupt the
initial disk is -/
theorem never_fatal (cfg : CacheCfg) (dflt : ℕ → ℕ) (solve : CReq → Res) (hg : cfg.guardedLoad = true)
    (ops : List COp) (d : Disk Res) :
    ∀ a ∈ (runHistory cfg dflt solve d ops).1, Answer.value? a ≠ none := by
  induction ops generalizing d with
  | nil => intro a ha; cases ha
  | cons op ops ih =>
    cases op with
    | request r =>
      simp only [runHistory, List.mem_cons]
      intro a ha
      rcases ha with rfl | ha
      · unfold solveCached
        simp only [hg, if_true]
        split <;> simp [Answer.value?]
      · exact ih _ a ha
    | crash r => simp only [runHistory]; exact ih _
    | truncate r => simp only [runHistory]; exact ih _
    | restart => simp only [runHistory]; exact ih _

/-- a truncated entry is a miss: the request is recomputed (and re-stored), never an error -/
theorem truncated_is_miss (cfg : CacheCfg) (dflt : ℕ → ℕ) (solve : CReq → Res)
    (hk : KeyComplete cfg) (hg : cfg.guardedLoad = true) (d : Disk Res) (r : CReq)
    (hex : ∃ e, d.find (r.key cfg dflt true) = some e) :
    (solveCached cfg dflt solve (truncateEntry cfg dflt d r) r).1 = .miss (solve r) := by
  obtain ⟨_, hget, hput⟩ := hk
  obtain ⟨e, he⟩ := hex
  simp only [solveCached, truncateEntry, hget, hput, he, find_cons, if_true, hg]

/-- incompleteness is observable: if an argument is NOT hashed, two requests (with an explicit halo)
differing only in it collide, so the second is served the first one's entry — the defect of the pinned
tree for `levels`, the grid shape, `analytic` and `srf_bg_conc` -/
theorem incomplete_key_collides (cfg : CacheCfg) (dflt : ℕ → ℕ) (f : Fld) (hf : f ∉ cfg.keyFields)
    (r : CReq) (hh : r.haloNone = false) (v : ℕ) (res : Bool) :
    let r' : CReq := { r with val := fun g => if g = f then v else r.val g }
    r'.key cfg dflt res = r.key cfg dflt res := by
  intro r'
  unfold CReq.key
  apply List.map_congr_left
  intro g hg
  have hgf : g ≠ f := fun h => hf (h ▸ hg)
  simp only [CReq.fieldVal, r', hh, hgf, if_false, Bool.false_eq_true, and_false]

/-! non-vacuity: the complete configuration satisfies `KeyComplete`; a trivial solver is `Sound` -/
example : KeyComplete ⟨Fld.determining, true, true, true, true⟩ := ⟨fun _ h => h, rfl, rfl⟩
example : Sound (Res := ℕ) (fun d => d) (fun r => (r.determ (fun d => d)).sum) := by
  intro r r' h; simp only [h]

end BLDFM.C15
