/-
  C04 — concentration and flux are linear in (surface flux, background);
  the background never reaches the flux; footprint mode ignores the source values.
-/
import Proofs.Lemmas.Spec
import Proofs.Lemmas.Tactics

open BLDFM BLDFM.Spec

namespace BLDFM.C04

/-- one layer is a linear map of the `(p, q)` pair -/
theorem layerStep_linear (T k dz a b : ℂ) (x y : ℂ × ℂ) :
    layerStep T k dz (a * x.1 + b * y.1, a * x.2 + b * y.2) =
      (a * (layerStep T k dz x).1 + b * (layerStep T k dz y).1,
       a * (layerStep T k dz x).2 + b * (layerStep T k dz y).2) := by
  simp only [layerStep]
  refine Prod.ext ?_ ?_ <;> ring

/-- the whole sweep is linear in its initial pair, for every profile set, grid and wavenumber -/
theorem ivp_linear (P : Profiles ℝ) (z : ℕ → ℝ) (Lx Ly : ℝ) (a b : ℂ) (x y : ℂ × ℂ) (l : ℕ) :
    ivpState RC P z Lx Ly (a * x.1 + b * y.1, a * x.2 + b * y.2) l =
      (a * (ivpState RC P z Lx Ly x l).1 + b * (ivpState RC P z Lx Ly y l).1,
       a * (ivpState RC P z Lx Ly x l).2 + b * (ivpState RC P z Lx Ly y l).2) := by
  induction l with
  | zero => rfl
  | succ l ih =>
    simp only [ivpState]
    rw [ih]
    exact layerStep_linear _ _ _ a b _ _

/-- the sweep started from `(0, s·q̂)` is `s` times the sweep started from `(0, q̂)` -/
theorem ivp_scale (P : Profiles ℝ) (z : ℕ → ℝ) (Lx Ly : ℝ) (a b q1 q2 : ℂ) (l : ℕ) :
    ivpState RC P z Lx Ly ((0.0 : ℂ), a * q1 + b * q2) l =
      (a * (ivpState RC P z Lx Ly ((0.0 : ℂ), q1) l).1 + b * (ivpState RC P z Lx Ly ((0.0 : ℂ), q2) l).1,
       a * (ivpState RC P z Lx Ly ((0.0 : ℂ), q1) l).2 + b * (ivpState RC P z Lx Ly ((0.0 : ℂ), q2) l).2) := by
  have h := ivp_linear P z Lx Ly a b ((0.0 : ℂ), q1) ((0.0 : ℂ), q2) l
  have h0 : a * (0.0 : ℂ) + b * (0.0 : ℂ) = (0.0 : ℂ) := by norm_num
  simpa [h0] using h

/-- numerical column: linear in the spectral surface flux (shooting denominator non-zero,
which does not involve the source) -/
theorem columnNum_linear (P : Profiles ℝ) (z : ℕ → ℝ) (top : ℕ) (Lx Ly : ℝ) (a b q1 q2 : ℂ) (l : ℕ)
    (_hden : (ivpState RC P z Lx Ly ((1.0 : ℂ), (0.0 : ℂ)) top).2
      - RC.ofReal (P.Kz top) * eigval RC P top Lx Ly * (ivpState RC P z Lx Ly ((1.0 : ℂ), (0.0 : ℂ)) top).1 ≠ 0) :
    columnNum RC P z top Lx Ly (a * q1 + b * q2) l =
      (a * (columnNum RC P z top Lx Ly q1 l).1 + b * (columnNum RC P z top Lx Ly q2 l).1,
       a * (columnNum RC P z top Lx Ly q1 l).2 + b * (columnNum RC P z top Lx Ly q2 l).2) := by
  simp only [columnNum, alphaShoot, ivp_scale]
  refine Prod.ext ?_ ?_ <;> (simp only []; field_simp; ring)

/-- analytic column: linear in the spectral surface flux -/
theorem columnAna_linear (P : Profiles ℝ) (z : ℕ → ℝ) (top : ℕ) (Lx Ly : ℝ) (a b q1 q2 : ℂ) (l : ℕ) :
    columnAna RC P z top Lx Ly (a * q1 + b * q2) l =
      (a * (columnAna RC P z top Lx Ly q1 l).1 + b * (columnAna RC P z top Lx Ly q2 l).1,
       a * (columnAna RC P z top Lx Ly q1 l).2 + b * (columnAna RC P z top Lx Ly q2 l).2) := by
  simp only [columnAna]
  refine Prod.ext ?_ ?_ <;> ring

/-- mean mode: jointly linear in (background, mean surface flux) -/
theorem mean_linear (P : Profiles ℝ) (z : ℕ → ℝ) (top : ℕ) (a b c1 c2 q1 q2 : ℂ) (l : ℕ) :
    meanNum RC P z (a * c1 + b * c2) (a * q1 + b * q2) l
        = a * meanNum RC P z c1 q1 l + b * meanNum RC P z c2 q2 l ∧
    meanAna RC P z top (a * c1 + b * c2) (a * q1 + b * q2) l
        = a * meanAna RC P z top c1 q1 l + b * meanAna RC P z top c2 q2 l := by
  simp only [meanNum, meanAna]
  constructor <;> ring

/-- the background concentration never reaches the flux: every spectral flux
coefficient is the same for two requests that differ only in the background -/
theorem flux_indep_background (req : SolveReq ℝ) (c' : ℝ) (S : ℕ → ℕ → ℂ) (l a b : ℕ) :
    (modeCoef RC { req with bg := c' } (geom RC { req with bg := c' }) S l a b).2
      = (modeCoef RC req (geom RC req) S l a b).2 := by
  simp only [modeCoef, storeP, geom]
  split <;> rfl

/-- the background is a uniform offset: it only enters the `(0,0)` coefficient of the
concentration, additively -/
theorem background_only_in_mean (req : SolveReq ℝ) (c' : ℝ) (S : ℕ → ℕ → ℂ) (l a b : ℕ)
    (hab : ¬(a = 0 ∧ b = 0)) :
    (modeCoef RC { req with bg := c' } (geom RC { req with bg := c' }) S l a b)
      = (modeCoef RC req (geom RC req) S l a b) := by
  simp only [modeCoef, storeP, geom, hab, if_false]

theorem background_offset (req : SolveReq ℝ) (c' : ℝ) (S : ℕ → ℕ → ℂ) (l : ℕ)
    (hp : req.precision = .double) :
    (modeCoef RC { req with bg := c' } (geom RC { req with bg := c' }) S l 0 0).1
      = (modeCoef RC req (geom RC req) S l 0 0).1 + ((c' : ℂ) - (req.bg : ℂ)) := by
  cases han : req.analytic <;>
    simp [modeCoef, storeP, geom, hp, meanNum, meanAna, RC, han] <;> ring

/-- in footprint mode the result does not depend on the VALUES of the surface-flux
array at all (the whole pipeline): only its shape `(ny, nx)` enters -/
theorem footprint_indep_source_values (req : SolveReq ℝ) (q' : ℕ → ℕ → ℝ)
    (hfp : req.footprint = true) :
    solve RC { req with q := q' } = solve RC req := by
  have hs : srcSpectrum RC { req with q := q' } (geom RC { req with q := q' })
      = srcSpectrum RC req (geom RC req) := by
    simp only [srcSpectrum, hfp, if_true, geom]
  have he : solveErr { req with q := q' } = solveErr req := rfl
  unfold solve
  rw [he]
  cases solveErr req with
  | some e => rfl
  | none =>
    simp only [solveOk, hs]
    rfl

/-! non-vacuity: the shooting-denominator hypothesis is satisfiable (one layer, `T = 0`) -/
example : ∃ (P : Profiles ℝ) (z : ℕ → ℝ),
    (ivpState RC P z 0 0 ((1.0 : ℂ), (0.0 : ℂ)) 0).2
      - RC.ofReal (P.Kz 0) * (1 : ℂ) * (ivpState RC P z 0 0 ((1.0 : ℂ), (0.0 : ℂ)) 0).1 ≠ 0 := by
  refine ⟨⟨fun _ => 1, fun _ => 1, fun _ => 1, fun _ => 1, fun _ => 1⟩, fun i => i, ?_⟩
  simp only [ivpState, RC]
  norm_num

end BLDFM.C04
