/-
  C02e — the reciprocity sums `Σ q·footprint` and `Σ q·G` as they are evaluated in floating point: every product and every
  addition rounded (`|fl x - x| ≤ eps |x|`).  The computed value differs from the exact sum by at most
  `((1 + eps)^(n+1) - 1) Σ|qᵢ wᵢ|`, i.e. `2 (n+1) eps Σ|qᵢ wᵢ|` for `(n+1) eps ≤ 1/2`.  Together with the exact
  identities of C02 (both sides equal over the reals) this is the tolerance at which the identity can be observed.
-/
import Proofs.C20d

namespace BLDFM.C02

open BLDFM.C20

/-- the rounded products `fl (qᵢ wᵢ)` -/
def flProducts (fl : ℝ → ℝ) (q w : List ℝ) : List ℝ := List.zipWith (fun a b => fl (a * b)) q w

/-- the exact products -/
def products (q w : List ℝ) : List ℝ := List.zipWith (fun a b => a * b) q w

/-- `Σ qᵢ wᵢ` as computed: rounded products, summed left to right with a rounding per addition -/
def flDot (fl : ℝ → ℝ) (q w : List ℝ) : ℝ := flSum fl (flProducts fl q w)

theorem flProducts_length (fl : ℝ → ℝ) (q w : List ℝ) : (flProducts fl q w).length = (products q w).length := by
  simp [flProducts, products]

/-- rounded products stay within `eps` of the exact ones, term by term and in the two sums that matter -/
theorem flProducts_close (fl : ℝ → ℝ) (eps : ℝ) (hfl : ∀ x, |fl x - x| ≤ eps * |x|) :
    ∀ (q w : List ℝ), |(flProducts fl q w).sum - (products q w).sum| ≤ eps * absSum (products q w) ∧
      absSum (flProducts fl q w) ≤ (1 + eps) * absSum (products q w) := by
  intro q
  induction q with
  | nil => intro w; simp [flProducts, products, absSum]
  | cons a q ih =>
    intro w
    cases w with
    | nil => simp [flProducts, products, absSum]
    | cons b w =>
      obtain ⟨h1, h2⟩ := ih w
      have hp : flProducts fl (a :: q) (b :: w) = fl (a * b) :: flProducts fl q w := rfl
      have hq : products (a :: q) (b :: w) = (a * b) :: products q w := rfl
      rw [hp, hq, List.sum_cons, List.sum_cons, absSum_cons, absSum_cons]
      have e0 := hfl (a * b)
      constructor
      · have : fl (a * b) + (flProducts fl q w).sum - (a * b + (products q w).sum)
            = (fl (a * b) - a * b) + ((flProducts fl q w).sum - (products q w).sum) := by ring
        rw [this]
        refine (abs_add_le _ _).trans ?_
        nlinarith
      · have : |fl (a * b)| ≤ |fl (a * b) - a * b| + |a * b| := by
          have := abs_add_le (fl (a * b) - a * b) (a * b)
          simpa using this
        nlinarith

/-- **the computed reciprocity sum** -/
theorem flDot_error (fl : ℝ → ℝ) (eps : ℝ) (heps : 0 ≤ eps) (hfl : ∀ x, |fl x - x| ≤ eps * |x|) (q w : List ℝ) :
    |flDot fl q w - (products q w).sum|
      ≤ ((1 + eps) ^ ((products q w).length + 1) - 1) * absSum (products q w) := by
  obtain ⟨h1, h2⟩ := flProducts_close fl eps hfl q w
  have hs := flSum_error fl eps heps hfl (flProducts fl q w)
  rw [flProducts_length] at hs
  set n := (products q w).length
  set A := absSum (products q w) with hA
  have hA0 : 0 ≤ A := absSum_nonneg _
  have hP : 0 ≤ (1 + eps) ^ n - 1 := by
    have : 1 ≤ (1 + eps) ^ n := one_le_pow₀ (by linarith)
    linarith
  have hs' : |flSum fl (flProducts fl q w) - (flProducts fl q w).sum| ≤ ((1 + eps) ^ n - 1) * ((1 + eps) * A) :=
    hs.trans (mul_le_mul_of_nonneg_left h2 hP)
  have : flDot fl q w - (products q w).sum
      = (flSum fl (flProducts fl q w) - (flProducts fl q w).sum) + ((flProducts fl q w).sum - (products q w).sum) := by
    unfold flDot; ring
  rw [this]
  refine (abs_add_le _ _).trans ?_
  have : ((1 + eps) ^ (n + 1) - 1) * A = ((1 + eps) ^ n - 1) * ((1 + eps) * A) + eps * A := by rw [pow_succ]; ring
  rw [this]
  exact add_le_add hs' h1

/-- explicit form: `2 (n + 1) eps Σ|qᵢ wᵢ|` when `(n + 1) eps ≤ 1/2` (a 512 x 512 source in double precision: `5.8e-11`
of `Σ|q w|`) -/
theorem flDot_error_explicit (fl : ℝ → ℝ) (eps : ℝ) (heps : 0 ≤ eps) (hfl : ∀ x, |fl x - x| ≤ eps * |x|) (q w : List ℝ)
    (hn : (((products q w).length + 1 : ℕ) : ℝ) * eps ≤ 1 / 2) :
    |flDot fl q w - (products q w).sum| ≤ 2 * ((products q w).length + 1 : ℕ) * eps * absSum (products q w) :=
  (flDot_error fl eps heps hfl q w).trans
    (mul_le_mul_of_nonneg_right (pow_sub_one_le eps heps _ hn) (absSum_nonneg _))

/-! non-vacuity: exact arithmetic -/
example : flDot id [1, 2, 3] [4, 5, 6] = 32 := by norm_num [flDot, flSum, flFold, flProducts]

end BLDFM.C02
