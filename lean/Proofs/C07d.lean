/-
  C07 (field level, whole model pipeline) — LENGTH SIMILARITY: multiplying all lengths (domain extents, node heights,
  halo, measurement point) and all diffusivities by a common factor `s > 0` leaves both fields unchanged, at every
  level and cell, in both modes, numeric and analytic, for every truncation and parity.
-/
import Proofs.Lemmas.Spec
import Proofs.Lemmas.Tactics
import Proofs.Lemmas.Repr
import Proofs.C03b
import Proofs.C07
import Proofs.Lemmas.Witness

open BLDFM BLDFM.Spec BLDFM.Index

namespace BLDFM.C07

/-- `r'` is `r` with all lengths and all diffusivities times `s` -/
def LenScaled (s : ℝ) (r r' : SolveReq ℝ) : Prop :=
  r' = { r with xmx := s * r.xmx, ymx := s * r.ymx, z := fun i => s * r.z i, halo := r.halo.map (fun x => s * x),
                xm := s * r.xm, ym := s * r.ym, P := scaleK s r.P }

theorem resistNum_length (P : Profiles ℝ) (z : ℕ → ℝ) (s : ℝ) (hs : s ≠ 0) (l : ℕ) :
    resistNum (scaleK s P) (fun i => s * z i) l = resistNum P z l := by
  unfold resistNum
  have z0 : (0.0 : ℝ) = 0 := by norm_num
  rw [z0, sumN_eq_sum, sumN_eq_sum]
  apply Finset.sum_congr rfl; intro i _
  simp only [scaleK]
  field_simp

theorem columnAna_length (P : Profiles ℝ) (z : ℕ → ℝ) (top : ℕ) (Lx Ly s : ℝ) (hs : 0 < s) (hKz : P.Kz top ≠ 0)
    (qh : ℂ) (l : ℕ) :
    columnAna RC (scaleK s P) (fun i => s * z i) top (Lx / s) (Ly / s) qh l = columnAna RC P z top Lx Ly qh l := by
  have hsc : (s : ℂ) ≠ 0 := by exact_mod_cast hs.ne'
  simp only [columnAna, eigval_length P top Lx Ly s hs hKz]
  have hk : RC.ofReal (1.0 / (scaleK s P).Kz top) = RC.ofReal (1.0 / P.Kz top) / (s : ℂ) := by
    simp only [scaleK, RC]; push_cast; norm_num; field_simp
  have hh : RC.ofReal (s * z l - s * z 0) = (s : ℂ) * RC.ofReal (z l - z 0) := by
    simp only [RC]; push_cast; ring
  rw [hk, hh]
  have e : -(eigval RC P top Lx Ly / (s : ℂ)) * ((s : ℂ) * RC.ofReal (z l - z 0)) = -eigval RC P top Lx Ly * RC.ofReal (z l - z 0) := by
    field_simp
  rw [e]
  refine Prod.ext ?_ rfl
  simp only []
  by_cases hl : eigval RC P top Lx Ly = 0
  · simp [hl]
  · field_simp

section
variable {s : ℝ} {r r' : SolveReq ℝ} (h : LenScaled s r r') (hs : 0 < s)
include h hs

theorem ls_geom : geom RC r' = { geom RC r with dx := s * (geom RC r).dx, dy := s * (geom RC r).dy, halo := s * (geom RC r).halo } := by
  have e' : r' = _ := h
  have hdx : (geom RC r').dx = s * (geom RC r).dx := by
    rw [e']; show s * r.xmx / RC.natCast r.nx = s * (r.xmx / RC.natCast r.nx); ring
  have hdy : (geom RC r').dy = s * (geom RC r).dy := by
    rw [e']; show s * r.ymx / RC.natCast r.ny = s * (r.ymx / RC.natCast r.ny); ring
  have hhalo : (geom RC r').halo = s * (geom RC r).halo := by
    rw [e']
    cases hh : r.halo with
    | some x => simp only [geom, hh, Option.map]
    | none =>
      simp only [geom, hh, Option.map]
      by_cases hlt : r.xmx < r.ymx
      · rw [if_pos hlt, if_pos (mul_lt_mul_of_pos_left hlt hs)]
      · rw [if_neg hlt, if_neg (fun hh => hlt (lt_of_mul_lt_mul_left hh hs.le))]
  have hpx : (geom RC r').px = (geom RC r).px := by
    show RC.truncNat ((geom RC r').halo / (geom RC r').dx) = RC.truncNat ((geom RC r).halo / (geom RC r).dx)
    rw [hhalo, hdx, mul_div_mul_left _ _ hs.ne']
  have hpy : (geom RC r').py = (geom RC r).py := by
    show RC.truncNat ((geom RC r').halo / (geom RC r').dy) = RC.truncNat ((geom RC r).halo / (geom RC r).dy)
    rw [hhalo, hdy, mul_div_mul_left _ _ hs.ne']
  have hnx : r'.nx = r.nx := by rw [e']
  have hny : r'.ny = r.ny := by rw [e']
  have hnlx : r'.nlx = r.nlx := by rw [e']
  have hnly : r'.nly = r.nly := by rw [e']
  have hNx : (geom RC r').nxe = (geom RC r).nxe := by rw [C11.geom_nxe, C11.geom_nxe, hpx, hnx]
  have hNy : (geom RC r').nye = (geom RC r).nye := by rw [C11.geom_nye, C11.geom_nye, hpy, hny]
  have hl := C11.geom_nl r'
  rw [hNx, hNy, hnlx, hnly] at hl
  have hl0 := C11.geom_nl r
  have hd := C11.geom_dl r'
  rw [hNx, hNy, hl.1, hl.2] at hd
  have hd0 := C11.geom_dl r
  cases hg' : geom RC r' with
  | mk dx dy halo px py nxe nye nlx nly dlx dly =>
    rw [hg'] at hdx hdy hhalo hpx hpy hNx hNy hl hd
    simp only at hdx hdy hhalo hpx hpy hNx hNy hl hd
    cases hg0 : geom RC r with
    | mk dx0 dy0 halo0 px0 py0 nxe0 nye0 nlx0 nly0 dlx0 dly0 =>
      rw [hg0] at hdx hdy hhalo hpx hpy hNx hNy hl hd hl0 hd0
      simp only at hdx hdy hhalo hpx hpy hNx hNy hl hd hl0 hd0
      simp only [Geom.mk.injEq]
      exact ⟨hdx, hdy, hhalo, hpx, hpy, hNx, hNy, hl.1.trans hl0.1.symm, hl.2.trans hl0.2.symm,
        by rw [hd.1, hd0.1, hl0.1], by rw [hd.2, hd0.2, hl0.2]⟩

/-- LENGTH SIMILARITY, whole pipeline: identical padded-domain fields -/
theorem length_similarity_field (hKz : r.P.Kz (r.nz - 1) ≠ 0) (l : ℕ) :
    fieldsAt RC r' (geom RC r') (srcSpectrum RC r' (geom RC r')).get l
      = fieldsAt RC r (geom RC r) (srcSpectrum RC r (geom RC r)).get l := by
  have hgm := ls_geom h hs
  have e' : r' = _ := h
  have hsr : (s : ℝ) ≠ 0 := hs.ne'
  have hsc : (s : ℂ) ≠ 0 := by exact_mod_cast hs.ne'
  -- projections of the scaled geometry
  have gdx : (geom RC r').dx = s * (geom RC r).dx := by rw [hgm]
  have gdy : (geom RC r').dy = s * (geom RC r).dy := by rw [hgm]
  have gpx : (geom RC r').px = (geom RC r).px := by rw [hgm]
  have gpy : (geom RC r').py = (geom RC r).py := by rw [hgm]
  have gNx : (geom RC r').nxe = (geom RC r).nxe := by rw [hgm]
  have gNy : (geom RC r').nye = (geom RC r).nye := by rw [hgm]
  have glx : (geom RC r').nlx = (geom RC r).nlx := by rw [hgm]
  have gly : (geom RC r').nly = (geom RC r).nly := by rw [hgm]
  have gdlx : (geom RC r').dlx = (geom RC r).dlx := by rw [hgm]
  have gdly : (geom RC r').dly = (geom RC r).dly := by rw [hgm]
  have fq : r'.q = r.q := by rw [e']
  have fnx : r'.nx = r.nx := by rw [e']
  have fny : r'.ny = r.ny := by rw [e']
  have fnz : r'.nz = r.nz := by rw [e']
  have fz : r'.z = fun i => s * r.z i := by rw [e']
  have fP : r'.P = scaleK s r.P := by rw [e']
  have fbg : r'.bg = r.bg := by rw [e']
  have ffp : r'.footprint = r.footprint := by rw [e']
  have fan : r'.analytic = r.analytic := by rw [e']
  have fpr : r'.precision = r.precision := by rw [e']
  have fxm : r'.xm = s * r.xm := by rw [e']
  have fym : r'.ym = s * r.ym := by rw [e']
  have fxx : r'.xmx = s * r.xmx := by rw [e']
  have fyy : r'.ymx = s * r.ymx := by rw [e']
  have wx : ∀ b, waveX RC (geom RC r') b = waveX RC (geom RC r) b / s := by
    intro b; unfold waveX; rw [gdx, gNx, glx]; field_simp
  have wy : ∀ a, waveY RC (geom RC r') a = waveY RC (geom RC r) a / s := by
    intro a; unfold waveY; rw [gdy, gNy, gly]; field_simp
  have hpad : padSrc RC r' (geom RC r') = padSrc RC r (geom RC r) := by
    funext J I; unfold padSrc; rw [gpx, gpy, fq, fnx, fny]
  have hS : srcSpectrum RC r' (geom RC r') = srcSpectrum RC r (geom RC r) := by
    unfold srcSpectrum
    rw [ffp, gNx, gNy, glx, gly, gdlx, gdly, hpad]
  have st : ∀ c : ℂ, storeP RC r' c = storeP RC r c := by
    intro c; unfold storeP; rw [fpr]
  have hcoef : ∀ S a b, modeCoef RC r' (geom RC r') S l a b = modeCoef RC r (geom RC r) S l a b := by
    intro S a b
    unfold modeCoef
    simp only [st, fan, fP, fz, fnz, fbg, wx, wy]
    by_cases hab : a = 0 ∧ b = 0
    · rw [if_pos hab, if_pos hab]
      cases r.analytic
      · simp only [Bool.false_eq_true, if_false, meanNum, resistNum_length _ _ s hsr]
      · simp only [if_true, meanAna, scaleK, RC_ofReal]
        congr 2
        push_cast
        have hk : (r.P.Kz (r.nz - 1) : ℂ) ≠ 0 := by exact_mod_cast hKz
        norm_num
        field_simp
    · rw [if_neg hab, if_neg hab]
      cases r.analytic
      · simp only [Bool.false_eq_true, if_false, column_length_similarity r.P r.z (r.nz - 1) _ _ s hs hKz]
      · simp only [if_true, columnAna_length r.P r.z (r.nz - 1) _ _ s hs hKz]
  have hshift : ∀ a b, shiftFactor RC r' (geom RC r') a b = shiftFactor RC r (geom RC r) a b := by
    intro a b
    unfold shiftFactor
    simp only [ffp, wx, wy, gpx, gpy, gdx, gdy, fxm, fym, fxx, fyy]
    have guard : ((0.0 : ℝ) < (s * r.xm) ^ (2 : ℕ) + (s * r.ym) ^ (2 : ℕ)) ↔ ((0.0 : ℝ) < r.xm ^ (2 : ℕ) + r.ym ^ (2 : ℕ)) := by
      have : (s * r.xm) ^ (2 : ℕ) + (s * r.ym) ^ (2 : ℕ) = s ^ 2 * (r.xm ^ (2 : ℕ) + r.ym ^ (2 : ℕ)) := by ring
      rw [this]
      norm_num
      constructor
      · intro hh; exact (mul_pos_iff_of_pos_left (by positivity)).mp hh
      · intro hh; exact mul_pos (by positivity) hh
    cases r.footprint
    · simp only [Bool.false_eq_true, if_false]
      by_cases hgd : (0.0 : ℝ) < r.xm ^ (2 : ℕ) + r.ym ^ (2 : ℕ)
      · rw [if_pos hgd, if_pos (guard.mpr hgd)]
        congr 2; rc_norm; norm_num; field_simp
      · rw [if_neg hgd, if_neg (fun hh => hgd (guard.mp hh))]
    · simp only [if_true]
      congr 2; rc_norm; norm_num; field_simp
  have hun : (untrunc (geom RC r') : (ℕ → ℕ → ℂ) → ℕ → ℕ → ℂ) = untrunc (geom RC r) := by
    funext T A B
    unfold untrunc
    rw [gNx, gNy, glx, gly, gdlx, gdly]
  unfold fieldsAt
  simp only [hcoef, hshift, hun, gNx, gNy, glx, gly, ffp, hS]

/-- … observed through the public result -/
theorem length_similarity_output (hKz : r.P.Kz (r.nz - 1) ≠ 0) (k j i : ℕ) :
    (solveOk RC r').conc k j i = (solveOk RC r).conc k j i ∧ (solveOk RC r').flx k j i = (solveOk RC r).flx k j i := by
  have hf := fun l => length_similarity_field h hs hKz l
  have hgm := ls_geom h hs
  have gpx : (geom RC r').px = (geom RC r).px := by rw [hgm]
  have gpy : (geom RC r').py = (geom RC r).py := by rw [hgm]
  have e' : r' = _ := h
  have flv : r'.levels = r.levels := by rw [e']
  simp only [solveOk, Tab1.get_tab, gpx, gpy, flv, hf]
  exact ⟨trivial, trivial⟩

end

/-! ### non-vacuity -/
example : ∃ r r' : SolveReq ℝ, LenScaled 2.5 r r' ∧ (0 : ℝ) < 2.5 ∧ r.P.Kz (r.nz - 1) ≠ 0 ∧ r'.xmx ≠ r.xmx := by
  refine ⟨Witness.wreq false, _, rfl, by norm_num, by simp [Witness.wreq], ?_⟩
  simp [Witness.wreq]
  norm_num

end BLDFM.C07
