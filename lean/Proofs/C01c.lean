/-
  C01 (convergence of the boundary-value solution, assembled) — the returned column is the shooting combination
  `α·s₁ + s₂` of two sweeps, `α` fixed by the decaying top condition `q = Kz λ p`.  If both sweeps are within `ε` of
  the exact fundamental solutions (which `sweep_first_order` provides with `ε = exp(L h)·C·δ·h`, first order in the
  layer thickness) and the exact shooting denominator is bounded away from zero, the column is within `K·ε` of the
  exact solution of the boundary-value problem, with an explicit `K`.
-/
import Proofs.Lemmas.Spec
import Proofs.Lemmas.Tactics
import Proofs.C01
import Proofs.C01b

open BLDFM BLDFM.Spec Set

namespace BLDFM.C01

/-- perturbation of the shooting coefficient `α = -N/D` -/
theorem alpha_perturb (N D Ns Ds : ℂ) (η d m : ℝ) (hd : 0 < d) (hDs : d ≤ ‖Ds‖) (hNs : ‖Ns‖ ≤ m)
    (hN : ‖N - Ns‖ ≤ η) (hD : ‖D - Ds‖ ≤ η) (hη : η ≤ d / 2) :
    ‖-N / D - -Ns / Ds‖ ≤ η * (2 * m / d ^ 2 + 2 / d) ∧ ‖-Ns / Ds‖ ≤ m / d := by
  have hη0 : 0 ≤ η := (norm_nonneg _).trans hN
  have hm : 0 ≤ m := (norm_nonneg _).trans hNs
  have hDs0 : Ds ≠ 0 := by
    intro h; rw [h, norm_zero] at hDs; linarith
  have hDn : d / 2 ≤ ‖D‖ := by
    have : ‖Ds‖ ≤ ‖D‖ + ‖D - Ds‖ := by
      calc ‖Ds‖ = ‖D - (D - Ds)‖ := by ring_nf
        _ ≤ ‖D‖ + ‖D - Ds‖ := norm_sub_le _ _
    linarith
  have hD0 : D ≠ 0 := by
    intro h; rw [h, norm_zero] at hDn; linarith
  have hDpos : 0 < ‖D‖ := by linarith
  have hDspos : 0 < ‖Ds‖ := by linarith
  constructor
  · have e : -N / D - -Ns / Ds = (Ns * (D - Ds) - (N - Ns) * Ds) / (D * Ds) := by
      field_simp; ring
    rw [e, norm_div, norm_mul]
    have num : ‖Ns * (D - Ds) - (N - Ns) * Ds‖ ≤ m * η + η * ‖Ds‖ := by
      refine (norm_sub_le _ _).trans ?_
      rw [norm_mul, norm_mul]
      have := mul_le_mul hNs hD (norm_nonneg _) hm
      have := mul_le_mul_of_nonneg_right hN (norm_nonneg Ds)
      linarith
    rw [div_le_iff₀ (mul_pos hDpos hDspos)]
    -- η (2m/d² + 2/d) · |D| |Ds| ≥ η (2m/d² + 2/d) (d/2) |Ds| = η (m/d + 1) |Ds| ≥ m η + η |Ds|
    have h1 : η * (2 * m / d ^ 2 + 2 / d) * (‖D‖ * ‖Ds‖) ≥ η * (2 * m / d ^ 2 + 2 / d) * ((d / 2) * ‖Ds‖) := by
      have hc : 0 ≤ η * (2 * m / d ^ 2 + 2 / d) := by positivity
      exact mul_le_mul_of_nonneg_left (mul_le_mul_of_nonneg_right hDn (norm_nonneg _)) hc
    have h2 : η * (2 * m / d ^ 2 + 2 / d) * ((d / 2) * ‖Ds‖) = η * (m / d) * ‖Ds‖ + η * ‖Ds‖ := by
      field_simp
    have h3 : η * (m / d) * ‖Ds‖ ≥ η * m := by
      have : η * (m / d) * ‖Ds‖ = η * m * (‖Ds‖ / d) := by field_simp
      rw [this]
      have : 1 ≤ ‖Ds‖ / d := by rw [le_div_iff₀ hd]; linarith
      have hηm : 0 ≤ η * m := mul_nonneg hη0 hm
      nlinarith
    linarith
  · rw [norm_div, norm_neg, div_le_div_iff₀ hDspos hd]
    nlinarith [mul_le_mul hNs hDs hd.le hm]

/-- SHOOTING: if all eight sweep values (two fundamental solutions, at the top and at the node of interest) are within
`ε` of the exact ones, the exact values are bounded by `M`, the exact denominator by `d > 0` from below and
`(1 + |κ|) ε ≤ d/2`, then the shooting combination is within `K ε` of the exact boundary-value solution -/
theorem shooting_perturb (κ : ℂ) (t1 t2 T1 T2 n1 n2 N1 N2 : ℂ × ℂ) (ε M d : ℝ) (hd : 0 < d)
    (ht1 : ‖t1.1 - T1.1‖ ≤ ε ∧ ‖t1.2 - T1.2‖ ≤ ε) (ht2 : ‖t2.1 - T2.1‖ ≤ ε ∧ ‖t2.2 - T2.2‖ ≤ ε)
    (hn1 : ‖n1.1 - N1.1‖ ≤ ε ∧ ‖n1.2 - N1.2‖ ≤ ε) (hn2 : ‖n2.1 - N2.1‖ ≤ ε ∧ ‖n2.2 - N2.2‖ ≤ ε)
    (hT2 : ‖T2.1‖ ≤ M ∧ ‖T2.2‖ ≤ M) (hN1 : ‖N1.1‖ ≤ M ∧ ‖N1.2‖ ≤ M)
    (hden : d ≤ ‖T1.2 - κ * T1.1‖) (hsmall : (1 + ‖κ‖) * ε ≤ d / 2) :
    let α := -(t2.2 - κ * t2.1) / (t1.2 - κ * t1.1)
    let αs := -(T2.2 - κ * T2.1) / (T1.2 - κ * T1.1)
    let K := ((1 + ‖κ‖) * M / d + (1 + ‖κ‖) * ε * (2 * ((1 + ‖κ‖) * M) / d ^ 2 + 2 / d)) + (1 + ‖κ‖) * (2 * ((1 + ‖κ‖) * M) / d ^ 2 + 2 / d) * M + 1
    ‖(α * n1.1 + n2.1) - (αs * N1.1 + N2.1)‖ ≤ K * ε ∧ ‖(α * n1.2 + n2.2) - (αs * N1.2 + N2.2)‖ ≤ K * ε := by
  intro α αs K
  have hε : 0 ≤ ε := (norm_nonneg _).trans ht1.1
  have hM : 0 ≤ M := (norm_nonneg _).trans hT2.1
  have hκ : 0 ≤ ‖κ‖ := norm_nonneg _
  set η := (1 + ‖κ‖) * ε with hη
  set m := (1 + ‖κ‖) * M with hm
  have lin : ∀ x y X Y : ℂ, ‖x - X‖ ≤ ε → ‖y - Y‖ ≤ ε → ‖(y - κ * x) - (Y - κ * X)‖ ≤ η := by
    intro x y X Y hx hy
    have : (y - κ * x) - (Y - κ * X) = (y - Y) - κ * (x - X) := by ring
    rw [this]
    refine (norm_sub_le _ _).trans ?_
    rw [norm_mul]
    have := mul_le_mul_of_nonneg_left hx hκ
    rw [hη]; linarith
  have hNnum := lin t2.1 t2.2 T2.1 T2.2 ht2.1 ht2.2
  have hDnum := lin t1.1 t1.2 T1.1 T1.2 ht1.1 ht1.2
  have hNs : ‖T2.2 - κ * T2.1‖ ≤ m := by
    refine (norm_sub_le _ _).trans ?_
    rw [norm_mul]
    have := mul_le_mul_of_nonneg_left hT2.1 hκ
    rw [hm]; linarith [hT2.2]
  obtain ⟨hα, hαs⟩ := alpha_perturb (t2.2 - κ * t2.1) (t1.2 - κ * t1.1) (T2.2 - κ * T2.1) (T1.2 - κ * T1.1)
    η d m hd hden hNs hNnum hDnum hsmall
  have hαα : ‖α - αs‖ ≤ η * (2 * m / d ^ 2 + 2 / d) := hα
  have hαsb : ‖αs‖ ≤ m / d := hαs
  have hαb : ‖α‖ ≤ m / d + η * (2 * m / d ^ 2 + 2 / d) := by
    calc ‖α‖ = ‖αs + (α - αs)‖ := by ring_nf
      _ ≤ ‖αs‖ + ‖α - αs‖ := norm_add_le _ _
      _ ≤ _ := by linarith
  have hG : 0 ≤ 2 * m / d ^ 2 + 2 / d := by positivity
  have comb : ∀ x y X Y : ℂ, ‖x - X‖ ≤ ε → ‖y - Y‖ ≤ ε → ‖X‖ ≤ M →
      ‖(α * x + y) - (αs * X + Y)‖ ≤ K * ε := by
    intro x y X Y hx hy hX
    have e : (α * x + y) - (αs * X + Y) = α * (x - X) + (α - αs) * X + (y - Y) := by ring
    rw [e]
    refine (norm_add_le _ _).trans ?_
    have a1 : ‖α * (x - X) + (α - αs) * X‖ ≤ ‖α‖ * ‖x - X‖ + ‖α - αs‖ * ‖X‖ := by
      refine (norm_add_le _ _).trans ?_
      rw [norm_mul, norm_mul]
    have b1 : ‖α‖ * ‖x - X‖ ≤ (m / d + η * (2 * m / d ^ 2 + 2 / d)) * ε :=
      mul_le_mul hαb hx (norm_nonneg _) (by positivity)
    have b2 : ‖α - αs‖ * ‖X‖ ≤ η * (2 * m / d ^ 2 + 2 / d) * M :=
      mul_le_mul hαα hX (norm_nonneg _) (by positivity)
    have hK : K * ε = (m / d + η * (2 * m / d ^ 2 + 2 / d)) * ε + η * (2 * m / d ^ 2 + 2 / d) * M + ε := by
      show (((1 + ‖κ‖) * M / d + (1 + ‖κ‖) * ε * (2 * ((1 + ‖κ‖) * M) / d ^ 2 + 2 / d))
        + (1 + ‖κ‖) * (2 * ((1 + ‖κ‖) * M) / d ^ 2 + 2 / d) * M + 1) * ε = _
      rw [hη, hm]; ring
    rw [hK]
    linarith
  exact ⟨comb _ _ _ _ hn1.1 hn2.1 hN1.1, comb _ _ _ _ hn1.2 hn2.2 hN1.2⟩

/-- the sweep bound at any node `l ≤ top`, uniformly by the bound at the top -/
theorem sweep_bound_upto (P : Profiles ℝ) (z : ℕ → ℝ) (Lx Ly : ℝ) (Tc kc p q : ℝ → ℂ) (top l : ℕ) (hl : l ≤ top)
    (a B Λ δ : ℝ) (hΛ : 0 ≤ Λ) (hδ0 : 0 ≤ δ) (hδ1 : δ ≤ 1)
    (hsample : ∀ i, i < top → Tcoef RC P Lx Ly i = Tc (z i) ∧ RC.ofReal (1.0 / P.Kz i) = kc (z i))
    (hgrid : ∀ i, i < top → 0 ≤ z (i + 1) - z i ∧ z (i + 1) - z i ≤ δ)
    (hp : ∀ s ∈ Icc (z 0) (z top), HasDerivAt p (-(kc s) * q s) s)
    (hq : ∀ s ∈ Icc (z 0) (z top), HasDerivAt q (Tc s * p s) s)
    (hTa : ∀ s ∈ Icc (z 0) (z top), ‖Tc s‖ ≤ a) (hka : ∀ s ∈ Icc (z 0) (z top), ‖kc s‖ ≤ a)
    (hpB : ∀ s ∈ Icc (z 0) (z top), ‖p s‖ ≤ B) (hqB : ∀ s ∈ Icc (z 0) (z top), ‖q s‖ ≤ B)
    (hTl : ∀ s ∈ Icc (z 0) (z top), ∀ t ∈ Icc (z 0) (z top), ‖Tc s - Tc t‖ ≤ Λ * |s - t|)
    (hkl : ∀ s ∈ Icc (z 0) (z top), ∀ t ∈ Icc (z 0) (z top), ‖kc s - kc t‖ ≤ Λ * |s - t|) :
    ‖p (z l) - (ivpState RC P z Lx Ly (p (z 0), q (z 0)) l).1‖
      ≤ Real.exp ((a + a ^ 2 / 2 + a ^ 3 / 6) * (z top - z 0))
          * ((Λ * B + a ^ 2 * B + a ^ 2 * B / 2 + a ^ 3 * B / 6) * δ * (z top - z 0)) ∧
    ‖q (z l) - (ivpState RC P z Lx Ly (p (z 0), q (z 0)) l).2‖
      ≤ Real.exp ((a + a ^ 2 / 2 + a ^ 3 / 6) * (z top - z 0))
          * ((Λ * B + a ^ 2 * B + a ^ 2 * B / 2 + a ^ 3 * B / 6) * δ * (z top - z 0)) := by
  have hm := z_mono z top (fun i hi => (hgrid i hi).1)
  have hlt : z l ≤ z top := hm top (le_refl _) l hl
  have h0l : z 0 ≤ z l := hm l hl 0 (Nat.zero_le _)
  have sub : ∀ s ∈ Icc (z 0) (z l), s ∈ Icc (z 0) (z top) := fun s hs => ⟨hs.1, hs.2.trans hlt⟩
  have hz0 : z 0 ∈ Icc (z 0) (z top) := ⟨le_refl _, h0l.trans hlt⟩
  have ha : 0 ≤ a := (norm_nonneg _).trans (hTa _ hz0)
  have hB : 0 ≤ B := (norm_nonneg _).trans (hpB _ hz0)
  have base := sweep_first_order P z Lx Ly Tc kc p q l a B Λ δ hΛ hδ0 hδ1
    (fun i hi => hsample i (by omega)) (fun i hi => hgrid i (by omega))
    (fun s hs => hp s (sub s hs)) (fun s hs => hq s (sub s hs))
    (fun s hs => hTa s (sub s hs)) (fun s hs => hka s (sub s hs))
    (fun s hs => hpB s (sub s hs)) (fun s hs => hqB s (sub s hs))
    (fun s hs t ht => hTl s (sub s hs) t (sub t ht)) (fun s hs t ht => hkl s (sub s hs) t (sub t ht))
  have mono : Real.exp ((a + a ^ 2 / 2 + a ^ 3 / 6) * (z l - z 0))
        * ((Λ * B + a ^ 2 * B + a ^ 2 * B / 2 + a ^ 3 * B / 6) * δ * (z l - z 0))
      ≤ Real.exp ((a + a ^ 2 / 2 + a ^ 3 / 6) * (z top - z 0))
        * ((Λ * B + a ^ 2 * B + a ^ 2 * B / 2 + a ^ 3 * B / 6) * δ * (z top - z 0)) := by
    have hL : 0 ≤ a + a ^ 2 / 2 + a ^ 3 / 6 := by positivity
    have hC : 0 ≤ (Λ * B + a ^ 2 * B + a ^ 2 * B / 2 + a ^ 3 * B / 6) * δ := by positivity
    have h1 : z l - z 0 ≤ z top - z 0 := by linarith
    have h0 : 0 ≤ z l - z 0 := by linarith
    apply mul_le_mul
    · exact Real.exp_le_exp.mpr (mul_le_mul_of_nonneg_left h1 hL)
    · exact mul_le_mul_of_nonneg_left h1 hC
    · exact mul_nonneg hC h0
    · exact (Real.exp_pos _).le
  exact ⟨base.1.trans mono, base.2.trans mono⟩

/-- FIRST-ORDER CONVERGENCE OF THE RETURNED COLUMN to the exact solution of the boundary-value problem
(`q(z_0) = q̂`, decaying constant-coefficient continuation `q = Kz λ p` at the top node): with `ε` the first-order sweep
bound, the numerical column at every node `l ≤ top` is within `K·ε` of `α*·(p₁, q₁)(z_l) + (p₂, q₂)(z_l)`. -/
theorem column_first_order (P : Profiles ℝ) (z : ℕ → ℝ) (Lx Ly : ℝ) (qh : ℂ) (Tc kc p1 q1 p2 q2 : ℝ → ℂ)
    (top l : ℕ) (hl : l ≤ top) (a M Λ δ d : ℝ) (hΛ : 0 ≤ Λ) (hδ0 : 0 ≤ δ) (hδ1 : δ ≤ 1) (hd : 0 < d)
    (hsample : ∀ i, i < top → Tcoef RC P Lx Ly i = Tc (z i) ∧ RC.ofReal (1.0 / P.Kz i) = kc (z i))
    (hgrid : ∀ i, i < top → 0 ≤ z (i + 1) - z i ∧ z (i + 1) - z i ≤ δ)
    (hp1 : ∀ s ∈ Icc (z 0) (z top), HasDerivAt p1 (-(kc s) * q1 s) s)
    (hq1 : ∀ s ∈ Icc (z 0) (z top), HasDerivAt q1 (Tc s * p1 s) s)
    (hp2 : ∀ s ∈ Icc (z 0) (z top), HasDerivAt p2 (-(kc s) * q2 s) s)
    (hq2 : ∀ s ∈ Icc (z 0) (z top), HasDerivAt q2 (Tc s * p2 s) s)
    (init1 : p1 (z 0) = 1 ∧ q1 (z 0) = 0) (init2 : p2 (z 0) = 0 ∧ q2 (z 0) = qh)
    (hTa : ∀ s ∈ Icc (z 0) (z top), ‖Tc s‖ ≤ a) (hka : ∀ s ∈ Icc (z 0) (z top), ‖kc s‖ ≤ a)
    (hB1 : ∀ s ∈ Icc (z 0) (z top), ‖p1 s‖ ≤ M ∧ ‖q1 s‖ ≤ M) (hB2 : ∀ s ∈ Icc (z 0) (z top), ‖p2 s‖ ≤ M ∧ ‖q2 s‖ ≤ M)
    (hTl : ∀ s ∈ Icc (z 0) (z top), ∀ t ∈ Icc (z 0) (z top), ‖Tc s - Tc t‖ ≤ Λ * |s - t|)
    (hkl : ∀ s ∈ Icc (z 0) (z top), ∀ t ∈ Icc (z 0) (z top), ‖kc s - kc t‖ ≤ Λ * |s - t|)
    (hden : d ≤ ‖q1 (z top) - RC.ofReal (P.Kz top) * eigval RC P top Lx Ly * p1 (z top)‖)
    (hsmall : (1 + ‖RC.ofReal (P.Kz top) * eigval RC P top Lx Ly‖)
        * (Real.exp ((a + a ^ 2 / 2 + a ^ 3 / 6) * (z top - z 0))
          * ((Λ * M + a ^ 2 * M + a ^ 2 * M / 2 + a ^ 3 * M / 6) * δ * (z top - z 0))) ≤ d / 2) :
    let κ := RC.ofReal (P.Kz top) * eigval RC P top Lx Ly
    let ε := Real.exp ((a + a ^ 2 / 2 + a ^ 3 / 6) * (z top - z 0))
          * ((Λ * M + a ^ 2 * M + a ^ 2 * M / 2 + a ^ 3 * M / 6) * δ * (z top - z 0))
    let αs := -(q2 (z top) - κ * p2 (z top)) / (q1 (z top) - κ * p1 (z top))
    let K := ((1 + ‖κ‖) * M / d + (1 + ‖κ‖) * ε * (2 * ((1 + ‖κ‖) * M) / d ^ 2 + 2 / d)) + (1 + ‖κ‖) * (2 * ((1 + ‖κ‖) * M) / d ^ 2 + 2 / d) * M + 1
    ‖(columnNum RC P z top Lx Ly qh l).1 - (αs * p1 (z l) + p2 (z l))‖ ≤ K * ε ∧
    ‖(columnNum RC P z top Lx Ly qh l).2 - (αs * q1 (z l) + q2 (z l))‖ ≤ K * ε := by
  intro κ ε αs K
  have hm := z_mono z top (fun i hi => (hgrid i hi).1)
  have hztop : z top ∈ Icc (z 0) (z top) := ⟨hm top (le_refl _) 0 (Nat.zero_le _), le_refl _⟩
  have hzl : z l ∈ Icc (z 0) (z top) := ⟨hm l hl 0 (Nat.zero_le _), hm top (le_refl _) l hl⟩
  have s1 := fun n hn => sweep_bound_upto P z Lx Ly Tc kc p1 q1 top n hn a M Λ δ hΛ hδ0 hδ1 hsample hgrid hp1 hq1 hTa hka
    (fun s hs => (hB1 s hs).1) (fun s hs => (hB1 s hs).2) hTl hkl
  have s2 := fun n hn => sweep_bound_upto P z Lx Ly Tc kc p2 q2 top n hn a M Λ δ hΛ hδ0 hδ1 hsample hgrid hp2 hq2 hTa hka
    (fun s hs => (hB2 s hs).1) (fun s hs => (hB2 s hs).2) hTl hkl
  have i1 : (p1 (z 0), q1 (z 0)) = ((1.0 : ℂ), (0.0 : ℂ)) := by rw [init1.1, init1.2]; norm_num
  have i2 : (p2 (z 0), q2 (z 0)) = ((0.0 : ℂ), qh) := by rw [init2.1, init2.2]; norm_num
  rw [i1] at s1
  rw [i2] at s2
  have flip : ∀ x y : ℂ, ‖x - y‖ = ‖y - x‖ := fun x y => norm_sub_rev x y
  have sp := shooting_perturb κ
    (ivpState RC P z Lx Ly ((1.0 : ℂ), (0.0 : ℂ)) top) (ivpState RC P z Lx Ly ((0.0 : ℂ), qh) top)
    (p1 (z top), q1 (z top)) (p2 (z top), q2 (z top))
    (ivpState RC P z Lx Ly ((1.0 : ℂ), (0.0 : ℂ)) l) (ivpState RC P z Lx Ly ((0.0 : ℂ), qh) l)
    (p1 (z l), q1 (z l)) (p2 (z l), q2 (z l)) ε M d hd
    ⟨by rw [flip]; exact (s1 top (le_refl _)).1, by rw [flip]; exact (s1 top (le_refl _)).2⟩
    ⟨by rw [flip]; exact (s2 top (le_refl _)).1, by rw [flip]; exact (s2 top (le_refl _)).2⟩
    ⟨by rw [flip]; exact (s1 l hl).1, by rw [flip]; exact (s1 l hl).2⟩
    ⟨by rw [flip]; exact (s2 l hl).1, by rw [flip]; exact (s2 l hl).2⟩
    ⟨(hB2 _ hztop).1, (hB2 _ hztop).2⟩ ⟨(hB1 _ hzl).1, (hB1 _ hzl).2⟩ hden hsmall
  simp only at sp
  have hcol : columnNum RC P z top Lx Ly qh l =
      (-(((ivpState RC P z Lx Ly ((0.0 : ℂ), qh) top).2 - κ * (ivpState RC P z Lx Ly ((0.0 : ℂ), qh) top).1))
          / ((ivpState RC P z Lx Ly ((1.0 : ℂ), (0.0 : ℂ)) top).2 - κ * (ivpState RC P z Lx Ly ((1.0 : ℂ), (0.0 : ℂ)) top).1)
        * (ivpState RC P z Lx Ly ((1.0 : ℂ), (0.0 : ℂ)) l).1 + (ivpState RC P z Lx Ly ((0.0 : ℂ), qh) l).1,
       -(((ivpState RC P z Lx Ly ((0.0 : ℂ), qh) top).2 - κ * (ivpState RC P z Lx Ly ((0.0 : ℂ), qh) top).1))
          / ((ivpState RC P z Lx Ly ((1.0 : ℂ), (0.0 : ℂ)) top).2 - κ * (ivpState RC P z Lx Ly ((1.0 : ℂ), (0.0 : ℂ)) top).1)
        * (ivpState RC P z Lx Ly ((1.0 : ℂ), (0.0 : ℂ)) l).2 + (ivpState RC P z Lx Ly ((0.0 : ℂ), qh) l).2) := by
    simp only [columnNum, alphaShoot]
    rfl
  rw [hcol]
  exact sp

/-- the smallness hypothesis of `column_first_order` holds on every sufficiently fine grid: the sweep bound is
`E·δ` with `E = exp(L h)·C·h` independent of the layer thickness -/
theorem small_of_fine (κn L C h d δ : ℝ) (hκ : 0 ≤ κn) (hC : 0 ≤ C) (hh : 0 ≤ h) (hd : 0 < d)
    (hδ : δ * ((1 + κn) * (Real.exp (L * h) * (C * h))) ≤ d / 2) :
    (1 + κn) * (Real.exp (L * h) * (C * δ * h)) ≤ d / 2 := by
  have : (1 + κn) * (Real.exp (L * h) * (C * δ * h)) = δ * ((1 + κn) * (Real.exp (L * h) * (C * h))) := by ring
  rw [this]; exact hδ

/-- … and the resulting error bound tends to zero linearly with the layer thickness: it is `(K·E)·δ` -/
theorem bound_linear_in_delta (K L C h δ : ℝ) :
    K * (Real.exp (L * h) * (C * δ * h)) = (K * (Real.exp (L * h) * (C * h))) * δ := by ring

end BLDFM.C01
