/-
  C04 (field level) — through the whole model pipeline the padded-domain concentration and flux fields of a
  dispersion run are a LINEAR function of the pair (surface-flux field, background concentration).
-/
import Proofs.Lemmas.Spec
import Proofs.Lemmas.Tactics
import Proofs.Lemmas.Repr
import Proofs.C02b
import Proofs.C03b

open BLDFM BLDFM.Spec BLDFM.Index

namespace BLDFM.C04

/-- per-slot concentration transfer (minus the vertical resistance for the mean mode) -/
noncomputable def Wp (req : SolveReq ℝ) (g : Geom ℝ) (l a b : ℕ) : ℂ :=
  if a = 0 ∧ b = 0 then
    (if req.analytic then -(RC.ofReal (1.0 / req.P.Kz (req.nz - 1)) * RC.ofReal (req.z l - req.z 0))
     else -(RC.ofReal (resistNum req.P req.z l)))
  else (C02.transfer req g l a b).1

/-- concentration coefficient = source coefficient × transfer (+ the background in the mean mode) -/
theorem conc_coef (req : SolveReq ℝ) (hp : req.precision = .double) (hden : C02.DenOK req) (S : ℕ → ℕ → ℂ) (l a b : ℕ) :
    (modeCoef RC req (geom RC req) S l a b).1 =
      S a b * Wp req (geom RC req) l a b + (if a = 0 ∧ b = 0 then (req.bg : ℂ) else 0) := by
  unfold Wp
  by_cases hab : a = 0 ∧ b = 0
  · obtain ⟨rfl, rfl⟩ := hab
    simp only [modeCoef, storeP, hp, and_self, if_true]
    cases han : req.analytic
    · simp only [meanNum, RC_ofReal, Bool.false_eq_true, if_false]; ring
    · simp only [meanAna, RC_ofReal, if_true]; ring
  · rw [if_neg hab, if_neg hab, C02.coef_is_transfer_times_source req S l a b hab hp (fun h => hden h a b), add_zero]

/-- two requests that differ only in the source values and the background -/
def SameButSource (r r' : SolveReq ℝ) : Prop :=
  r' = { r with q := r'.q, bg := r'.bg }

theorem geom_same (r r' : SolveReq ℝ) (h : SameButSource r r') : geom RC r' = geom RC r := by
  rw [h]; rfl

/-- WHOLE-PIPELINE LINEARITY (dispersion mode): if `q₃ = α q₁ + β q₂` cell by cell and `bg₃ = α bg₁ + β bg₂`, then
at every level and every cell of the padded domain both fields of request 3 are the same combination of the
fields of requests 1 and 2 — for every halo, truncation, parity, profile set, numeric and analytic -/
theorem solve_linear (r1 r2 r3 : SolveReq ℝ) (h12 : SameButSource r1 r2) (h13 : SameButSource r1 r3)
    (hg : GeomOK (geom RC r1)) (hp : r1.precision = .double) (hden : C02.DenOK r1) (hfp : r1.footprint = false)
    (α β : ℝ) (hq : ∀ j i, r3.q j i = α * r1.q j i + β * r2.q j i) (hbg : r3.bg = α * r1.bg + β * r2.bg)
    (l J I : ℕ) :
    let g := geom RC r1
    let F := fun (r : SolveReq ℝ) => fieldsAt RC r g (srcSpectrum RC r g).get l
    (F r3).1.get J I = (α : ℂ) * (F r1).1.get J I + (β : ℂ) * (F r2).1.get J I ∧
    (F r3).2.get J I = (α : ℂ) * (F r1).2.get J I + (β : ℂ) * (F r2).2.get J I := by
  intro g F
  have g2 : geom RC r2 = g := geom_same r1 r2 h12
  have g3 : geom RC r3 = g := geom_same r1 r3 h13
  -- everything except q / bg is shared
  have e2 : r2 = { r1 with q := r2.q, bg := r2.bg } := h12
  have e3 : r3 = { r1 with q := r3.q, bg := r3.bg } := h13
  have fp2 : r2.footprint = false := by rw [e2]; exact hfp
  have fp3 : r3.footprint = false := by rw [e3]; exact hfp
  have p2 : r2.precision = .double := by rw [e2]; exact hp
  have p3 : r3.precision = .double := by rw [e3]; exact hp
  have d2 : C02.DenOK r2 := by rw [e2]; exact hden
  have d3 : C02.DenOK r3 := by rw [e3]; exact hden
  have hg2 : GeomOK (geom RC r2) := by rw [g2]; exact hg
  have hg3 : GeomOK (geom RC r3) := by rw [g3]; exact hg
  -- the padded source is linear
  have hpad : ∀ J I, padSrc RC r3 g J I = (α : ℂ) * padSrc RC r1 g J I + (β : ℂ) * padSrc RC r2 g J I := by
    intro J I
    have n2 : r2.ny = r1.ny ∧ r2.nx = r1.nx := by rw [e2]; exact ⟨rfl, rfl⟩
    have n3 : r3.ny = r1.ny ∧ r3.nx = r1.nx := by rw [e3]; exact ⟨rfl, rfl⟩
    unfold padSrc
    rw [n2.1, n2.2, n3.1, n3.2]
    split
    · simp only [RC_ofReal, hq]; push_cast; ring
    · norm_num
  -- hence the truncated spectrum
  have hS : ∀ a b, a < g.nly → b < g.nlx →
      (srcSpectrum RC r3 g).get a b = (α : ℂ) * (srcSpectrum RC r1 g).get a b + (β : ℂ) * (srcSpectrum RC r2 g).get a b := by
    intro a b ha hb
    have s1 := C02.srcSpectrum_formula r1 hg hfp a b ha hb
    have s2 := C02.srcSpectrum_formula r2 hg2 fp2 a b (by rw [g2]; exact ha) (by rw [g2]; exact hb)
    have s3 := C02.srcSpectrum_formula r3 hg3 fp3 a b (by rw [g3]; exact ha) (by rw [g3]; exact hb)
    rw [g2] at s2
    rw [g3] at s3
    rw [s1, s2, s3]
    simp only [hpad]
    rw [← mul_div_assoc, ← mul_div_assoc, ← add_div]
    congr 1
    rw [Finset.mul_sum, Finset.mul_sum, ← Finset.sum_add_distrib]
    apply Finset.sum_congr rfl; intro J' _
    rw [← mul_assoc, ← mul_assoc, ← add_mul]
    congr 1
    rw [Finset.mul_sum, Finset.mul_sum, ← Finset.sum_add_distrib]
    apply Finset.sum_congr rfl; intro I' _
    ring
  -- shared transfer and shift
  have hWq : ∀ a b, C02.Wq r2 g l a b = C02.Wq r1 g l a b ∧ C02.Wq r3 g l a b = C02.Wq r1 g l a b := by
    intro a b; constructor
    · rw [e2]; rfl
    · rw [e3]; rfl
  have hWp : ∀ a b, Wp r2 g l a b = Wp r1 g l a b ∧ Wp r3 g l a b = Wp r1 g l a b := by
    intro a b; constructor
    · rw [e2]; rfl
    · rw [e3]; rfl
  have hsh : ∀ a b, shiftFactor RC r2 g a b = shiftFactor RC r1 g a b ∧ shiftFactor RC r3 g a b = shiftFactor RC r1 g a b := by
    intro a b; constructor
    · rw [e2]; rfl
    · rw [e3]; rfl
  -- coefficient tables
  have c1 := fun a b => conc_coef r1 hp hden (srcSpectrum RC r1 g).get l a b
  have c2 := fun a b => conc_coef r2 p2 d2 (srcSpectrum RC r2 g).get l a b
  have c3 := fun a b => conc_coef r3 p3 d3 (srcSpectrum RC r3 g).get l a b
  have f1 := fun a b => C02.flux_coef r1 hp hden (srcSpectrum RC r1 g).get l a b
  have f2 := fun a b => C02.flux_coef r2 p2 d2 (srcSpectrum RC r2 g).get l a b
  have f3 := fun a b => C02.flux_coef r3 p3 d3 (srcSpectrum RC r3 g).get l a b
  simp only [g2] at c2 f2
  simp only [g3] at c3 f3
  have hbgc : (r3.bg : ℂ) = (α : ℂ) * (r1.bg : ℂ) + (β : ℂ) * (r2.bg : ℂ) := by rw [hbg]; push_cast; ring
  simp only [F]
  rw [(C03.fieldsAt_eq r1 g _ l).1, (C03.fieldsAt_eq r2 g _ l).1, (C03.fieldsAt_eq r3 g _ l).1,
    (C03.fieldsAt_eq r1 g _ l).2, (C03.fieldsAt_eq r2 g _ l).2, (C03.fieldsAt_eq r3 g _ l).2]
  simp only [hfp, fp2, fp3, Bool.false_eq_true, if_false]
  simp only [solver_repr 1 1.0 (Or.inl ⟨rfl, rfl⟩) g hg]
  constructor
  · rw [Finset.mul_sum, Finset.mul_sum, ← Finset.sum_add_distrib]
    apply Finset.sum_congr rfl; intro a ha
    rw [Finset.mul_sum, Finset.mul_sum, ← Finset.sum_add_distrib]
    apply Finset.sum_congr rfl; intro b hb
    rw [c1, c2, c3, (hWp a b).1, (hWp a b).2, (hsh a b).1, (hsh a b).2,
      hS a b (Finset.mem_range.mp ha) (Finset.mem_range.mp hb)]
    by_cases hab : a = 0 ∧ b = 0
    · simp only [hab, and_self, if_true, hbgc]; ring
    · simp only [hab, if_false]; ring
  · rw [Finset.mul_sum, Finset.mul_sum, ← Finset.sum_add_distrib]
    apply Finset.sum_congr rfl; intro a ha
    rw [Finset.mul_sum, Finset.mul_sum, ← Finset.sum_add_distrib]
    apply Finset.sum_congr rfl; intro b hb
    rw [f1, f2, f3, (hWq a b).1, (hWq a b).2, (hsh a b).1, (hsh a b).2,
      hS a b (Finset.mem_range.mp ha) (Finset.mem_range.mp hb)]
    ring

end BLDFM.C04
