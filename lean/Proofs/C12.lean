/-
  C12 — a solve is a pure function of its arguments (and of the thread SETTING, which selects
  the kernel variant): whatever the history of solves, thread changes and FFT-layer resets, the
  output of a request equals its output from a fresh state with the same thread setting.
  Bit-identity of the two kernel variants / of FFTW plans is observed, not proved (partial).
-/
import BLDFM
import Mathlib.Tactic.Ring

open BLDFM

namespace BLDFM.C12

def finalState (s : RtState) (ops : List RtOp) : RtState := (rtRun s ops).1

/-- the output of a solve depends only on the request and on whether more than one numerical
thread is configured — not on the FFT manager, not on which kernels were compiled before -/
theorem solve_output_state_free (s s' : RtState) (r : RtSolve)
    (h : decide (s.numThreads > 1) = decide (s'.numThreads > 1)) : solveOut s r = solveOut s' r := by
  simp only [solveOut, h]

/-- history freedom: after ANY history, a solve returns what it returns from the initial state
with the same thread setting -/
theorem solve_output_history_free (hist : List RtOp) (r : RtSolve) :
    let s := finalState RtState.init hist
    solveOut s r = solveOut { RtState.init with numThreads := s.numThreads } r := by
  intro s
  exact solve_output_state_free _ _ r rfl

/-- repeating a call: the same request twice in a row gives the same output -/
theorem repeat_same (s : RtState) (r : RtSolve) :
    solveOut (solveState s r) r = solveOut s r := by
  have hn : (solveState s r).numThreads = s.numThreads := by
    simp only [solveState, getMgr]
    repeat' split
    all_goals rfl
  exact solve_output_state_free _ _ r (by rw [hn])

/-- no operation other than `setThreads` / `workerReset` changes the thread setting -/
theorem threads_only_by_set (s : RtState) (op : RtOp)
    (h1 : ∀ n, op ≠ .setThreads n) (h2 : op ≠ .workerReset) : (rtStep s op).1.numThreads = s.numThreads := by
  cases op with
  | setThreads n => exact absurd rfl (h1 n)
  | solve r =>
    simp only [rtStep, solveState, getMgr]
    repeat' split
    all_goals rfl
  | fft2 =>
    simp only [rtStep, getMgr]
    repeat' split
    all_goals rfl
  | resetFft => rfl
  | workerReset => exact absurd rfl h2

/-- after any solve the FFT manager exists with exactly one thread -/
theorem mgr_after_solve (s : RtState) (r : RtSolve) : (solveState s r).fftMgr = some 1 := by
  simp only [solveState, getMgr]
  repeat' split
  all_goals first | rfl | simp_all

/-- the pool workers' reset reaches a canonical state in everything a solve reads: one thread, no
manager — whatever state the parent forked -/
theorem worker_reset_canonical (parent : RtState) :
    (rtStep parent .workerReset).1.numThreads = 1 ∧ (rtStep parent .workerReset).1.fftMgr = none := ⟨rfl, rfl⟩

/-- hence in a worker every solve returns what a fresh single-threaded process returns -/
theorem worker_solve_eq_fresh (parent : RtState) (r : RtSolve) :
    solveOut (rtStep parent .workerReset).1 r = solveOut RtState.init r := by
  exact solve_output_state_free _ _ r rfl

/-! non-vacuity: a history that changes every component of the state -/
example : finalState RtState.init [.setThreads 4, .solve ⟨7, false, false⟩, .resetFft, .solve ⟨8, true, true⟩]
    = { numThreads := 4, fftMgr := some 1, pyfftwThreads := some 1, compiledSerial := false, compiledParallel := true } := by
  decide

end BLDFM.C12
