/-
  C02 at the level of the public helpers: `point_measurement(srf_flx, footprint)` — the plain sum over the user's
  (un-padded) grid of source × returned footprint — equals the flux the dispersion run returns at the tower cell, for
  every halo (the halo cells carry no source), level, truncation, parity, profile set, numeric and analytic.
-/
import Proofs.Lemmas.Spec
import Proofs.Lemmas.Tactics
import Proofs.Lemmas.Repr
import Proofs.C02b
import Proofs.C02c
import Proofs.C13b
import Proofs.Lemmas.Witness

open BLDFM BLDFM.Spec BLDFM.Index

namespace BLDFM.C02

/-- a sum over the padded range of a summand that vanishes outside the window `[p, p+n)` -/
theorem sum_window (N p n : ℕ) (hN : N = n + 2 * p) (h : ℕ → ℝ) (hz : ∀ J, ¬(p ≤ J ∧ J < p + n) → h J = 0) :
    ∑ J ∈ Finset.range N, h J = ∑ j ∈ Finset.range n, h (j + p) := by
  have e : N = p + (n + p) := by omega
  rw [e, Finset.sum_range_add, Finset.sum_range_add]
  have z1 : ∑ x ∈ Finset.range p, h x = 0 := by
    apply Finset.sum_eq_zero; intro x hx
    exact hz x (by have := Finset.mem_range.mp hx; omega)
  have z2 : ∑ x ∈ Finset.range p, h (p + (n + x)) = 0 := by
    apply Finset.sum_eq_zero; intro x _
    exact hz _ (by omega)
  rw [z1, z2, zero_add, add_zero]
  apply Finset.sum_congr rfl; intro j _
  rw [add_comm]

/-- the padded weighted sum is the sum over the user's grid -/
theorem padded_sum_eq_user_sum (r : SolveReq ℝ) (G : ℕ → ℕ → ℝ) :
    ∑ J ∈ Finset.range (geom RC r).nye, ∑ I ∈ Finset.range (geom RC r).nxe, (padSrc RC r (geom RC r) J I).re * G J I
      = pointMeasurement r.ny r.nx r.q (fun j i => G (j + (geom RC r).py) (i + (geom RC r).px)) := by
  rw [C13.pointMeasurement_eq_sum]
  set g := geom RC r with hg
  have hpad : ∀ J I, (padSrc RC r g J I).re =
      if g.py ≤ J ∧ J < g.py + r.ny ∧ g.px ≤ I ∧ I < g.px + r.nx then r.q (J - g.py) (I - g.px) else 0 := by
    intro J I
    unfold padSrc
    split
    · simp [RC_ofReal]
    · norm_num
  rw [sum_window g.nye g.py r.ny (C11.geom_nye r) _ (by
    intro J hJ
    apply Finset.sum_eq_zero; intro I _
    rw [hpad, if_neg (fun hh => hJ ⟨hh.1, hh.2.1⟩), zero_mul])]
  apply Finset.sum_congr rfl; intro j hj
  have hj' := Finset.mem_range.mp hj
  rw [sum_window g.nxe g.px r.nx (C11.geom_nxe r) _ (by
    intro I hI
    rw [hpad, if_neg (fun hh => hI ⟨hh.2.2.1, hh.2.2.2⟩), zero_mul])]
  apply Finset.sum_congr rfl; intro i hi
  have hi' := Finset.mem_range.mp hi
  rw [hpad, if_pos ⟨by omega, by omega, by omega, by omega⟩]
  simp

/-- RECIPROCITY THROUGH THE PUBLIC HELPERS: `point_measurement(srf_flx, flx_footprint[k]) = flx_dispersion[k][jm, im]` -/
theorem point_measurement_reciprocity (rd : SolveReq ℝ) (hg : GeomOK (geom RC rd)) (hp : rd.precision = .double)
    (hden : DenOK rd) (hfp : rd.footprint = false) (hxm : rd.xm = 0) (hym : rd.ym = 0) (im jm k : ℕ)
    (hdx : (geom RC rd).dx ≠ 0) (hdy : (geom RC rd).dy ≠ 0) :
    let g := geom RC rd
    let rf : SolveReq ℝ := { rd with footprint := true, xm := im * g.dx, ym := jm * g.dy }
    pointMeasurement rd.ny rd.nx rd.q (fun j i => (solveOk RC rf).flx k j i) = (solveOk RC rd).flx k jm im := by
  intro g rf
  have hgf : geom RC rf = g := rfl
  have h := footprint_reciprocity_flux_real rd hg hp hden hfp hxm hym im jm (rd.levels.toArray.getD k 0) hdx hdy
  simp only at h
  have h2 := padded_sum_eq_user_sum rd
    (fun J I => ((fieldsAt RC rf g (srcSpectrum RC rf g).get (rd.levels.toArray.getD k 0)).2.get J I).re)
  rw [h] at h2
  simp only [solveOk, Tab1.get_tab, hgf, RC_re]
  exact h2.symm

/-- … and for the concentration above background:
`point_measurement(srf_flx, conc_footprint[k] − bg) = conc_dispersion[k][jm, im] − bg` -/
theorem point_measurement_reciprocity_conc (rd : SolveReq ℝ) (hg : GeomOK (geom RC rd)) (hp : rd.precision = .double)
    (hden : DenOK rd) (hfp : rd.footprint = false) (hxm : rd.xm = 0) (hym : rd.ym = 0) (im jm k : ℕ)
    (hdx : (geom RC rd).dx ≠ 0) (hdy : (geom RC rd).dy ≠ 0) :
    let g := geom RC rd
    let rf : SolveReq ℝ := { rd with footprint := true, xm := im * g.dx, ym := jm * g.dy }
    pointMeasurement rd.ny rd.nx rd.q (fun j i => (solveOk RC rf).conc k j i - rd.bg) = (solveOk RC rd).conc k jm im - rd.bg := by
  intro g rf
  have hgf : geom RC rf = g := rfl
  have h := footprint_reciprocity_conc rd hg hp hden hfp hxm hym im jm (rd.levels.toArray.getD k 0) hdx hdy
  simp only at h
  -- real parts
  have hre : ∀ J I, (padSrc RC rd g J I).im = 0 := by
    intro J I; unfold padSrc; split <;> simp [RC_ofReal]
  have hreal : ∑ J ∈ Finset.range g.nye, ∑ I ∈ Finset.range g.nxe,
      (padSrc RC rd g J I).re * (((fieldsAt RC rf g (srcSpectrum RC rf g).get (rd.levels.toArray.getD k 0)).1.get J I).re - rd.bg)
      = ((fieldsAt RC rd g (srcSpectrum RC rd g).get (rd.levels.toArray.getD k 0)).1.get (jm + g.py) (im + g.px)).re - rd.bg := by
    have h2 := congrArg Complex.re h
    rw [Complex.re_sum] at h2
    rw [show (((fieldsAt RC rd g (srcSpectrum RC rd g).get (rd.levels.toArray.getD k 0)).1.get (jm + g.py) (im + g.px)) - (rd.bg : ℂ)).re
        = ((fieldsAt RC rd g (srcSpectrum RC rd g).get (rd.levels.toArray.getD k 0)).1.get (jm + g.py) (im + g.px)).re - rd.bg by simp] at h2
    rw [← h2]
    apply Finset.sum_congr rfl; intro J _
    rw [Complex.re_sum]
    apply Finset.sum_congr rfl; intro I _
    rw [Complex.mul_re, hre J I, zero_mul, sub_zero]
    simp only [Complex.sub_re, Complex.ofReal_re]
    rfl
  have h3 := padded_sum_eq_user_sum rd
    (fun J I => ((fieldsAt RC rf g (srcSpectrum RC rf g).get (rd.levels.toArray.getD k 0)).1.get J I).re - rd.bg)
  rw [hreal] at h3
  simp only [solveOk, Tab1.get_tab, hgf, RC_re]
  exact h3.symm

end BLDFM.C02
