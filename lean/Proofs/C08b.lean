/-
  C08 — "the footprint … lies upwind of the tower".

  What can be said exactly, in the model, about WHICH side of the tower the footprint lies on.  For height-independent
  profiles the flux Green's function of every non-constant Fourier component is `e^{-λ h}` with the principal root
  `λ = √((Kx Lx² + Ky Ly² + i (u Lx + v Ly)) / Kz)` (`C05.analytic_is_closed_form`), and in footprint mode the component
  contributes the plane wave
        A e^{-Re λ · h} · cos(L · (r − r_tower) + Im λ · h)                                   (`mode_wave`)
  to the footprint (the forward transform of solver.py 280-283 supplies the `e^{-i L·(r − r_tower)}`).

    * `csqrt_im_sign`, `eigval_im_sign` : `Im λ` has the sign of `u Lx + v Ly` (strictly, when the wind has a component
      along the wave vector): the phase lag `Im λ · h` of a component grows with height in the direction of the wind;
    * `mode_crest`, `mode_crest_upwind` : the crest of that plane wave nearest to the tower sits at
      `d* = −(Im λ · h / |L|²) · L`, and `U · d* ≤ 0` — every Fourier component of the footprint is displaced AGAINST the
      wind, strictly when `U · L ≠ 0` and `h > 0`.  With `wind_from_bearing` (the wind blows from bearing `wd`) that is the
      bearing `wd` as seen from the tower.
    * `footprint_coef_analytic` : the model's footprint-mode flux coefficient of a non-constant slot in the analytic branch
      is `S · e^{-λ h}` times the shift to the tower's cell — the `A e^{-λ h}` the statements above are about.

  This is a statement per Fourier component for uniform profiles; that the centre of mass of the whole (cropped) footprint
  lies within a few degrees of the wind direction for sheared profiles stays a numeric clause (oracle).
-/
import Proofs.Lemmas.Spec
import Proofs.Lemmas.Tactics
import Proofs.Lemmas.Csqrt
import Mathlib.Analysis.SpecialFunctions.Complex.Arg
import Mathlib.Analysis.SpecialFunctions.Trigonometric.Bounds

open BLDFM BLDFM.Spec

namespace BLDFM.C08

private lemma csqrt_im_eq (w : ℂ) (hw : w ≠ 0) :
    (RC.csqrt w).im = Real.exp ((Complex.log w * (1 / 2)).re) * Real.sin (Complex.arg w / 2) := by
  rw [csqrt_def, Complex.cpow_def_of_ne_zero hw, Complex.exp_im]
  have him : (Complex.log w * (1 / 2)).im = Complex.arg w / 2 := by
    simp [Complex.log_im]; ring
  rw [him]

/-- the imaginary part of the principal root of a number in the closed right half plane has the sign of the number's
imaginary part -/
theorem csqrt_im_sign (w : ℂ) (hre : 0 ≤ w.re) : 0 ≤ (RC.csqrt w).im * w.im := by
  by_cases hw : w = 0
  · simp [hw, csqrt_zero]
  · rw [csqrt_im_eq w hw]
    have habs : |Complex.arg w| ≤ Real.pi / 2 := Complex.abs_arg_le_pi_div_two_iff.2 hre
    have hE : 0 < Real.exp ((Complex.log w * (1 / 2)).re) := Real.exp_pos _
    rcases le_or_gt 0 w.im with him | him
    · have harg : 0 ≤ Complex.arg w := Complex.arg_nonneg_iff.2 him
      have hsin : 0 ≤ Real.sin (Complex.arg w / 2) := by
        apply Real.sin_nonneg_of_nonneg_of_le_pi
        · linarith
        · have := abs_le.1 habs; linarith [Real.pi_pos]
      exact mul_nonneg (mul_nonneg hE.le hsin) him
    · have harg : Complex.arg w < 0 := Complex.arg_neg_iff.2 him
      have hsin : Real.sin (Complex.arg w / 2) < 0 := by
        apply Real.sin_neg_of_neg_of_neg_pi_lt
        · linarith
        · have := abs_le.1 habs; linarith [Real.pi_pos]
      have : 0 < Real.exp ((Complex.log w * (1 / 2)).re) * Real.sin (Complex.arg w / 2) * w.im := by
        have h1 : Real.exp ((Complex.log w * (1 / 2)).re) * Real.sin (Complex.arg w / 2) < 0 := mul_neg_of_pos_of_neg hE hsin
        exact mul_pos_of_neg_of_neg h1 him
      exact this.le

/-- strict version: a non-real radicand in the closed right half plane has a root whose imaginary part has strictly the
same sign -/
theorem csqrt_im_sign_strict (w : ℂ) (hre : 0 ≤ w.re) (him : w.im ≠ 0) : 0 < (RC.csqrt w).im * w.im := by
  have hw : w ≠ 0 := by
    intro h; rw [h] at him; simp at him
  rw [csqrt_im_eq w hw]
  have habs : |Complex.arg w| ≤ Real.pi / 2 := Complex.abs_arg_le_pi_div_two_iff.2 hre
  have hE : 0 < Real.exp ((Complex.log w * (1 / 2)).re) := Real.exp_pos _
  rcases lt_or_gt_of_ne him with hneg | hpos
  · have harg : Complex.arg w < 0 := Complex.arg_neg_iff.2 hneg
    have hsin : Real.sin (Complex.arg w / 2) < 0 := by
      apply Real.sin_neg_of_neg_of_neg_pi_lt
      · linarith
      · have := abs_le.1 habs; linarith [Real.pi_pos]
    exact mul_pos_of_neg_of_neg (mul_neg_of_pos_of_neg hE hsin) hneg
  · have harg0 : 0 ≤ Complex.arg w := Complex.arg_nonneg_iff.2 hpos.le
    have hargne : Complex.arg w ≠ 0 := by
      intro h0
      have := Complex.arg_eq_zero_iff.1 h0
      exact him (by have := this.2; exact this)
    have harg : 0 < Complex.arg w := lt_of_le_of_ne harg0 (Ne.symm hargne)
    have hsin : 0 < Real.sin (Complex.arg w / 2) := by
      apply Real.sin_pos_of_pos_of_lt_pi
      · linarith
      · have := abs_le.1 habs; linarith [Real.pi_pos]
    exact mul_pos (mul_pos hE hsin) hpos

/-- radicand of the model's vertical eigenvalue -/
private lemma eigval_radicand (P : Profiles ℝ) (top : ℕ) (Lx Ly : ℝ) :
    eigval RC P top Lx Ly = RC.csqrt
      ⟨(P.Kx top * Lx ^ 2 + P.Ky top * Ly ^ 2) / P.Kz top, (P.u top * Lx + P.v top * Ly) / P.Kz top⟩ := by
  simp only [eigval, RC_ofReal, RC_I]
  congr 1
  apply Complex.ext
  · simp only [Complex.add_re, Complex.mul_re, Complex.ofReal_re, Complex.ofReal_im, Complex.I_re, Complex.I_im]
    norm_num; ring
  · simp only [Complex.add_im, Complex.mul_im, Complex.ofReal_re, Complex.ofReal_im, Complex.I_re, Complex.I_im]
    norm_num; ring

/-- **`Im λ` has the sign of `U · L`**: for non-negative horizontal and positive vertical diffusivity at the top node the
vertical eigenvalue's imaginary part has the sign of the wind's component along the wave vector -/
theorem eigval_im_sign (P : Profiles ℝ) (top : ℕ) (Lx Ly : ℝ)
    (hKz : 0 < P.Kz top) (hKx : 0 ≤ P.Kx top) (hKy : 0 ≤ P.Ky top) :
    0 ≤ (eigval RC P top Lx Ly).im * (P.u top * Lx + P.v top * Ly) := by
  rw [eigval_radicand]
  have hre : 0 ≤ (P.Kx top * Lx ^ 2 + P.Ky top * Ly ^ 2) / P.Kz top := by positivity
  have h := csqrt_im_sign ⟨(P.Kx top * Lx ^ 2 + P.Ky top * Ly ^ 2) / P.Kz top, (P.u top * Lx + P.v top * Ly) / P.Kz top⟩ hre
  simp only at h
  have : (RC.csqrt ⟨(P.Kx top * Lx ^ 2 + P.Ky top * Ly ^ 2) / P.Kz top, (P.u top * Lx + P.v top * Ly) / P.Kz top⟩).im
      * (P.u top * Lx + P.v top * Ly)
      = ((RC.csqrt ⟨(P.Kx top * Lx ^ 2 + P.Ky top * Ly ^ 2) / P.Kz top, (P.u top * Lx + P.v top * Ly) / P.Kz top⟩).im
        * ((P.u top * Lx + P.v top * Ly) / P.Kz top)) * P.Kz top := by
    field_simp
  rw [this]
  exact mul_nonneg h hKz.le

theorem eigval_im_sign_strict (P : Profiles ℝ) (top : ℕ) (Lx Ly : ℝ)
    (hKz : 0 < P.Kz top) (hKx : 0 ≤ P.Kx top) (hKy : 0 ≤ P.Ky top) (hUL : P.u top * Lx + P.v top * Ly ≠ 0) :
    0 < (eigval RC P top Lx Ly).im * (P.u top * Lx + P.v top * Ly) := by
  rw [eigval_radicand]
  have hre : 0 ≤ (P.Kx top * Lx ^ 2 + P.Ky top * Ly ^ 2) / P.Kz top := by positivity
  have him : (P.u top * Lx + P.v top * Ly) / P.Kz top ≠ 0 := div_ne_zero hUL hKz.ne'
  have h := csqrt_im_sign_strict ⟨(P.Kx top * Lx ^ 2 + P.Ky top * Ly ^ 2) / P.Kz top, (P.u top * Lx + P.v top * Ly) / P.Kz top⟩ hre him
  simp only at h
  have : (RC.csqrt ⟨(P.Kx top * Lx ^ 2 + P.Ky top * Ly ^ 2) / P.Kz top, (P.u top * Lx + P.v top * Ly) / P.Kz top⟩).im
      * (P.u top * Lx + P.v top * Ly)
      = ((RC.csqrt ⟨(P.Kx top * Lx ^ 2 + P.Ky top * Ly ^ 2) / P.Kz top, (P.u top * Lx + P.v top * Ly) / P.Kz top⟩).im
        * ((P.u top * Lx + P.v top * Ly) / P.Kz top)) * P.Kz top := by
    field_simp
  rw [this]
  exact mul_pos h hKz

/-- **the plane wave a Fourier component contributes to the footprint**: amplitude `A e^{-Re λ h}`, phase
`L · d + Im λ · h` at the offset `d = r − r_tower` -/
theorem mode_wave (A h Lx Ly dx dy : ℝ) (lam : ℂ) :
    ((A : ℂ) * Complex.exp (-Complex.I * ((Lx * dx + Ly * dy : ℝ) : ℂ)) * Complex.exp (-lam * (h : ℂ))).re
      = A * Real.exp (-lam.re * h) * Real.cos (Lx * dx + Ly * dy + lam.im * h) := by
  have e : (A : ℂ) * Complex.exp (-Complex.I * ((Lx * dx + Ly * dy : ℝ) : ℂ)) * Complex.exp (-lam * (h : ℂ))
      = ((A * Real.exp (-lam.re * h) : ℝ) : ℂ) * Complex.exp (((-(Lx * dx + Ly * dy + lam.im * h) : ℝ) : ℂ) * Complex.I) := by
    rw [mul_assoc, ← Complex.exp_add]
    have : -Complex.I * ((Lx * dx + Ly * dy : ℝ) : ℂ) + -lam * (h : ℂ)
        = ((-lam.re * h : ℝ) : ℂ) + ((-(Lx * dx + Ly * dy + lam.im * h) : ℝ) : ℂ) * Complex.I := by
      apply Complex.ext
      · simp
      · simp; ring
    rw [this, Complex.exp_add, ← Complex.ofReal_exp]
    push_cast; ring
  rw [e, Complex.re_ofReal_mul, Complex.exp_ofReal_mul_I_re, Real.cos_neg]

/-- the crest of the component nearest to the tower: at `d* = −(Im λ · h / |L|²) · L` the phase vanishes -/
theorem mode_crest (h Lx Ly : ℝ) (lam : ℂ) (hL : Lx ^ 2 + Ly ^ 2 ≠ 0) :
    Lx * (-(lam.im * h / (Lx ^ 2 + Ly ^ 2)) * Lx) + Ly * (-(lam.im * h / (Lx ^ 2 + Ly ^ 2)) * Ly) + lam.im * h = 0 := by
  field_simp; ring

/-- **every Fourier component of the footprint is displaced against the wind**: `U · d* ≤ 0` -/
theorem mode_crest_upwind (P : Profiles ℝ) (top : ℕ) (Lx Ly h : ℝ)
    (hKz : 0 < P.Kz top) (hKx : 0 ≤ P.Kx top) (hKy : 0 ≤ P.Ky top) (hh : 0 ≤ h) :
    let lam := eigval RC P top Lx Ly
    P.u top * (-(lam.im * h / (Lx ^ 2 + Ly ^ 2)) * Lx) + P.v top * (-(lam.im * h / (Lx ^ 2 + Ly ^ 2)) * Ly) ≤ 0 := by
  intro lam
  have hs := eigval_im_sign P top Lx Ly hKz hKx hKy
  have hL : 0 ≤ Lx ^ 2 + Ly ^ 2 := by positivity
  have : P.u top * (-(lam.im * h / (Lx ^ 2 + Ly ^ 2)) * Lx) + P.v top * (-(lam.im * h / (Lx ^ 2 + Ly ^ 2)) * Ly)
      = -((lam.im * (P.u top * Lx + P.v top * Ly)) * h / (Lx ^ 2 + Ly ^ 2)) := by ring
  rw [this, neg_nonpos]
  exact div_nonneg (mul_nonneg hs hh) hL

/-- … strictly, when the wind has a component along the wave vector and the level is above the surface -/
theorem mode_crest_upwind_strict (P : Profiles ℝ) (top : ℕ) (Lx Ly h : ℝ)
    (hKz : 0 < P.Kz top) (hKx : 0 ≤ P.Kx top) (hKy : 0 ≤ P.Ky top) (hh : 0 < h)
    (hUL : P.u top * Lx + P.v top * Ly ≠ 0) :
    let lam := eigval RC P top Lx Ly
    P.u top * (-(lam.im * h / (Lx ^ 2 + Ly ^ 2)) * Lx) + P.v top * (-(lam.im * h / (Lx ^ 2 + Ly ^ 2)) * Ly) < 0 := by
  intro lam
  have hs := eigval_im_sign_strict P top Lx Ly hKz hKx hKy hUL
  have hL : 0 < Lx ^ 2 + Ly ^ 2 := by
    by_contra hcon
    have h0 : Lx ^ 2 + Ly ^ 2 = 0 := le_antisymm (not_lt.1 hcon) (by positivity)
    have hx : Lx = 0 := by nlinarith [sq_nonneg Lx, sq_nonneg Ly]
    have hy : Ly = 0 := by nlinarith [sq_nonneg Lx, sq_nonneg Ly]
    exact hUL (by rw [hx, hy]; ring)
  have : P.u top * (-(lam.im * h / (Lx ^ 2 + Ly ^ 2)) * Lx) + P.v top * (-(lam.im * h / (Lx ^ 2 + Ly ^ 2)) * Ly)
      = -((lam.im * (P.u top * Lx + P.v top * Ly)) * h / (Lx ^ 2 + Ly ^ 2)) := by ring
  rw [this, neg_lt_zero]
  exact div_pos (mul_pos hs hh) hL

/-- the model's footprint-mode flux coefficient of a non-constant slot in the analytic branch (double precision):
`S · e^{-λ h}` times the shift of the Green's function to the tower's cell of the padded grid -/
theorem footprint_coef_analytic (req : SolveReq ℝ) (hp : req.precision = .double) (han : req.analytic = true)
    (hfp : req.footprint = true) (g : Geom ℝ) (S : ℕ → ℕ → ℂ) (l a b : ℕ) (hab : ¬(a = 0 ∧ b = 0)) :
    (modeCoef RC req g S l a b).2 * shiftFactor RC req g a b =
      S a b * Complex.exp (-(eigval RC req.P (req.nz - 1) (waveX RC g b) (waveY RC g a)) * ((req.z l - req.z 0 : ℝ) : ℂ))
        * Complex.exp (Complex.I * ((waveX RC g b * (req.xm + (g.px : ℝ) * g.dx) + waveY RC g a * (req.ym + (g.py : ℝ) * g.dy) : ℝ) : ℂ)) := by
  simp only [modeCoef, if_neg hab, storeP, hp, han, if_true, columnAna, shiftFactor, hfp, RC_cexp, RC_ofReal, RC_I, RC_natCast]

/-- non-vacuity: a westerly wind (`u > 0`), a wave vector along `+x`: `Im λ > 0`, the crest lies at negative `x` offset -/
example : 0 < (eigval RC ⟨fun _ => 3, fun _ => 0, fun _ => 1, fun _ => 1, fun _ => 1⟩ 0 1 0).im * (3 * 1 + 0 * 0) :=
  eigval_im_sign_strict ⟨fun _ => 3, fun _ => 0, fun _ => 1, fun _ => 1, fun _ => 1⟩ 0 1 0 (by norm_num) (by norm_num) (by norm_num)
    (by norm_num)

end BLDFM.C08
