/-
  C12 (precision clause) — "Single precision differs from double precision only by storage rounding".

  In the code `precision="single"` only selects the storage type of the two spectral arrays (solver.py 176-188): every
  spectral coefficient is computed in double precision and ROUNDED when it is stored.  The model carries that rounding as
  the field `store32` of the function record (`storeP`), which is the identity in the exact instance `RC`.  Here it is an
  arbitrary function `σ : ℂ → ℂ` (`RCs σ`), constrained only by a relative-error bound `‖σ c − c‖ ≤ ε ‖c‖` (IEEE single:
  `ε = 2⁻²⁴·√2` for a complex number stored component-wise), and the clause becomes a theorem:

    * `single_is_rounded_double` : the single-precision request's coefficients are `σ` applied to the double-precision
      request's coefficients — storage rounding is the ONLY difference, for every slot, level, mode, branch;
    * `field_perturbation`       : coefficient tables that differ slot-wise by `δ a b` give padded-domain fields that
      differ by at most `Σ_{a,b} ‖δ a b‖` at every cell (the transform is a sum of unimodular phases);
    * `single_vs_double_bound`   : hence at every level and cell
         ‖field_single − field_double‖ ≤ ε · Σ_{a<nly} Σ_{b<nlx} ‖coef_double(a, b)‖.

    * `field_bound_of_coef_bound`, `double_rounding` : the analytic branch rounds the concentration coefficient twice (it is
      derived from the stored flux coefficient); the model rounds once, the bound then holds with `2ε + ε²` for that table.

  The property's figure "relative 1e-5 of the field maximum" compares this `ℓ¹` norm of the spectrum with the field maximum,
  which depends on the source; it stays an observation of the oracle.
-/
import Proofs.Lemmas.Spec
import Proofs.Lemmas.Tactics
import Proofs.Lemmas.Repr
import Proofs.C03b

open BLDFM BLDFM.Spec BLDFM.Index

namespace BLDFM.C12

/-- the exact-arithmetic function record with an arbitrary storage-rounding function -/
noncomputable def RCs (σ : ℂ → ℂ) : Fns ℝ ℂ := { RC with store32 := σ }

/-- the same request at double precision -/
def asDouble (req : SolveReq ℝ) : SolveReq ℝ := { req with precision := .double }

theorem geom_RCs (σ : ℂ → ℂ) (req : SolveReq ℝ) : geom (RCs σ) req = geom RC (asDouble req) := rfl

theorem srcSpectrum_RCs (σ : ℂ → ℂ) (req : SolveReq ℝ) (g : Geom ℝ) :
    srcSpectrum (RCs σ) req g = srcSpectrum RC (asDouble req) g := rfl

theorem shiftFactor_RCs (σ : ℂ → ℂ) (req : SolveReq ℝ) (g : Geom ℝ) (a b : ℕ) :
    shiftFactor (RCs σ) req g a b = shiftFactor RC (asDouble req) g a b := rfl

theorem dft2_RCs (σ : ℂ → ℂ) (sr : ℝ) (Ny Nx : ℕ) (x : ℕ → ℕ → ℂ) : dft2 (RCs σ) sr Ny Nx x = dft2 RC sr Ny Nx x := rfl

theorem ivpState_RCs (σ : ℂ → ℂ) (P : Profiles ℝ) (z : ℕ → ℝ) (Lx Ly : ℝ) (pq0 : ℂ × ℂ) (l : ℕ) :
    ivpState (RCs σ) P z Lx Ly pq0 l = ivpState RC P z Lx Ly pq0 l := by
  induction l with
  | zero => rfl
  | succ n ih =>
    simp only [ivpState]
    rw [ih]
    rfl

theorem columnNum_RCs (σ : ℂ → ℂ) (P : Profiles ℝ) (z : ℕ → ℝ) (top : ℕ) (Lx Ly : ℝ) (qh : ℂ) (l : ℕ) :
    columnNum (RCs σ) P z top Lx Ly qh l = columnNum RC P z top Lx Ly qh l := by
  simp only [columnNum, ivpState_RCs]
  rfl

theorem columnAna_RCs (σ : ℂ → ℂ) (P : Profiles ℝ) (z : ℕ → ℝ) (top : ℕ) (Lx Ly : ℝ) (qh : ℂ) (l : ℕ) :
    columnAna (RCs σ) P z top Lx Ly qh l = columnAna RC P z top Lx Ly qh l := rfl

theorem waveX_RCs (σ : ℂ → ℂ) (g : Geom ℝ) (b : ℕ) : waveX (RCs σ) g b = waveX RC g b := rfl
theorem waveY_RCs (σ : ℂ → ℂ) (g : Geom ℝ) (a : ℕ) : waveY (RCs σ) g a = waveY RC g a := rfl

/-- **storage rounding is the only difference**: every spectral coefficient of the single-precision request is the
rounded coefficient of the double-precision request -/
theorem single_is_rounded_double (σ : ℂ → ℂ) (req : SolveReq ℝ) (hs : req.precision = .single) (g : Geom ℝ)
    (S : ℕ → ℕ → ℂ) (l a b : ℕ) :
    modeCoef (RCs σ) req g S l a b =
      (σ (modeCoef RC (asDouble req) g S l a b).1, σ (modeCoef RC (asDouble req) g S l a b).2) := by
  simp only [modeCoef, storeP, hs, asDouble, columnNum_RCs, columnAna_RCs, waveX_RCs, waveY_RCs]
  split <;> rfl

/-- a double-precision request does not round at all, whatever `σ` is -/
theorem double_unrounded (σ : ℂ → ℂ) (req : SolveReq ℝ) (hd : req.precision = .double) (g : Geom ℝ)
    (S : ℕ → ℕ → ℂ) (l a b : ℕ) :
    modeCoef (RCs σ) req g S l a b = modeCoef RC req g S l a b := by
  simp only [modeCoef, storeP, hd, columnNum_RCs, columnAna_RCs, waveX_RCs, waveY_RCs]
  split <;> rfl

theorem norm_rootPow (N : ℕ) (m : ℤ) : ‖rootPow N m‖ = 1 := by
  unfold rootPow
  rw [Complex.norm_exp]
  have : (2 * (Real.pi : ℂ) * Complex.I * (m : ℂ) / (N : ℂ)).re = 0 := by
    have e : 2 * (Real.pi : ℂ) * Complex.I * (m : ℂ) / (N : ℂ) = ((2 * Real.pi * m / N : ℝ) : ℂ) * Complex.I := by
      push_cast; ring
    rw [e, Complex.re_ofReal_mul]
    simp
  rw [this, Real.exp_zero]

theorem norm_shiftFactor (req : SolveReq ℝ) (g : Geom ℝ) (a b : ℕ) : ‖shiftFactor RC req g a b‖ = 1 := by
  have hexp : ∀ x : ℝ, ‖Complex.exp (Complex.I * (x : ℂ))‖ = 1 := by
    intro x
    rw [Complex.norm_exp]
    simp
  unfold shiftFactor
  simp only [RC_cexp, RC_I, RC_ofReal]
  split
  · exact hexp _
  · split
    · exact hexp _
    · norm_num

/-- **field perturbation**: two truncated coefficient tables give padded-domain fields whose difference at any cell is
bounded by the `ℓ¹` norm of the difference of the tables -/
theorem field_perturbation (s : ℤ) (sr : ℝ) (hs : SignPair s sr) (g : Geom ℝ) (hg : GeomOK g) (T T' : ℕ → ℕ → ℂ) (j i : ℕ) :
    ‖(dft2 RC sr g.nye g.nxe (untrunc g T')).get j i - (dft2 RC sr g.nye g.nxe (untrunc g T)).get j i‖
      ≤ ∑ a ∈ Finset.range g.nly, ∑ b ∈ Finset.range g.nlx, ‖T' a b - T a b‖ := by
  rw [solver_repr s sr hs g hg T' j i, solver_repr s sr hs g hg T j i, ← Finset.sum_sub_distrib]
  refine (norm_sum_le _ _).trans (Finset.sum_le_sum fun a _ => ?_)
  rw [← Finset.sum_sub_distrib]
  refine (norm_sum_le _ _).trans (Finset.sum_le_sum fun b _ => ?_)
  rw [← sub_mul, ← sub_mul, norm_mul, norm_mul, norm_rootPow, norm_rootPow, mul_one, mul_one]

/-- **single versus double precision**: at every level and every cell of the padded domain, both fields of the
single-precision request differ from those of the double-precision request by at most `ε` times the `ℓ¹` norm of the
double-precision spectrum, for any storage rounding with relative error `ε` -/
theorem single_vs_double_bound (σ : ℂ → ℂ) (ε : ℝ) (hσ : ∀ c : ℂ, ‖σ c - c‖ ≤ ε * ‖c‖)
    (req : SolveReq ℝ) (hs : req.precision = .single) (hg : GeomOK (geom RC (asDouble req))) (l j i : ℕ) :
    let g := geom RC (asDouble req)
    let S := (srcSpectrum RC (asDouble req) g).get
    ‖(fieldsAt (RCs σ) req g S l).1.get j i - (fieldsAt RC (asDouble req) g S l).1.get j i‖
        ≤ ε * ∑ a ∈ Finset.range g.nly, ∑ b ∈ Finset.range g.nlx, ‖(modeCoef RC (asDouble req) g S l a b).1‖ ∧
    ‖(fieldsAt (RCs σ) req g S l).2.get j i - (fieldsAt RC (asDouble req) g S l).2.get j i‖
        ≤ ε * ∑ a ∈ Finset.range g.nly, ∑ b ∈ Finset.range g.nlx, ‖(modeCoef RC (asDouble req) g S l a b).2‖ := by
  intro g S
  -- the single-precision fields, written with the exact record and rounded coefficients
  have e1 : (fieldsAt (RCs σ) req g S l).1 = dft2 RC (if (asDouble req).footprint then (-1.0 : ℝ) else 1.0) g.nye g.nxe
      (untrunc g (fun a b => σ (modeCoef RC (asDouble req) g S l a b).1 * shiftFactor RC (asDouble req) g a b)) := by
    simp only [fieldsAt, dft2_RCs]
    congr 2; funext A B; simp only [Tab2.get_tab, single_is_rounded_double σ req hs, shiftFactor_RCs]
  have e2 : (fieldsAt (RCs σ) req g S l).2 = dft2 RC (if (asDouble req).footprint then (-1.0 : ℝ) else 1.0) g.nye g.nxe
      (untrunc g (fun a b => σ (modeCoef RC (asDouble req) g S l a b).2 * shiftFactor RC (asDouble req) g a b)) := by
    simp only [fieldsAt, dft2_RCs]
    congr 2; funext A B; simp only [Tab2.get_tab, single_is_rounded_double σ req hs, shiftFactor_RCs]
  have key : ∀ (c : ℕ → ℕ → ℂ),
      ∑ a ∈ Finset.range g.nly, ∑ b ∈ Finset.range g.nlx,
        ‖σ (c a b) * shiftFactor RC (asDouble req) g a b - c a b * shiftFactor RC (asDouble req) g a b‖
      ≤ ε * ∑ a ∈ Finset.range g.nly, ∑ b ∈ Finset.range g.nlx, ‖c a b‖ := by
    intro c
    rw [Finset.mul_sum]
    refine Finset.sum_le_sum fun a _ => ?_
    rw [Finset.mul_sum]
    refine Finset.sum_le_sum fun b _ => ?_
    rw [← sub_mul, norm_mul, norm_shiftFactor, mul_one]
    exact hσ _
  constructor
  · rw [e1, (C03.fieldsAt_eq (asDouble req) g S l).1]
    exact (field_perturbation _ _ (C03.signPair_of _) g hg _ _ j i).trans (key _)
  · rw [e2, (C03.fieldsAt_eq (asDouble req) g S l).2]
    exact (field_perturbation _ _ (C03.signPair_of _) g hg _ _ j i).trans (key _)

/-- the same bound for ANY slot-wise relative perturbation of the (unshifted) coefficient table — rounding applied
once, twice, or by another storage format -/
theorem field_bound_of_coef_bound (req : SolveReq ℝ) (g : Geom ℝ) (hg : GeomOK g) (c c' : ℕ → ℕ → ℂ) (ε : ℝ)
    (h : ∀ a b, ‖c' a b - c a b‖ ≤ ε * ‖c a b‖) (j i : ℕ) :
    ‖(dft2 RC (if req.footprint then (-1.0 : ℝ) else 1.0) g.nye g.nxe (untrunc g (fun a b => c' a b * shiftFactor RC req g a b))).get j i
      - (dft2 RC (if req.footprint then (-1.0 : ℝ) else 1.0) g.nye g.nxe (untrunc g (fun a b => c a b * shiftFactor RC req g a b))).get j i‖
      ≤ ε * ∑ a ∈ Finset.range g.nly, ∑ b ∈ Finset.range g.nlx, ‖c a b‖ := by
  refine (field_perturbation _ _ (C03.signPair_of _) g hg _ _ j i).trans ?_
  rw [Finset.mul_sum]
  refine Finset.sum_le_sum fun a _ => ?_
  rw [Finset.mul_sum]
  refine Finset.sum_le_sum fun b _ => ?_
  rw [← sub_mul, norm_mul, norm_shiftFactor, mul_one]
  exact h a b

/-- **two roundings in a row** (the analytic branch derives the concentration coefficient from the ALREADY STORED flux
coefficient, `tfftp[:, msk] = tfftq[:, msk] * Kzinv / eigval`): the relative error is at most `2ε + ε²` -/
theorem double_rounding (σ : ℂ → ℂ) (ε : ℝ) (hε : 0 ≤ ε) (hσ : ∀ c : ℂ, ‖σ c - c‖ ≤ ε * ‖c‖) (q k : ℂ) :
    ‖σ (σ q * k) - q * k‖ ≤ (2 * ε + ε ^ 2) * ‖q * k‖ := by
  have h1 : ‖σ q * k - q * k‖ ≤ ε * ‖q * k‖ := by
    rw [← sub_mul, norm_mul, norm_mul, ← mul_assoc]
    exact mul_le_mul_of_nonneg_right (hσ q) (norm_nonneg k)
  have h2 : ‖σ q * k‖ ≤ (1 + ε) * ‖q * k‖ := by
    have : σ q * k = (σ q * k - q * k) + q * k := by ring
    calc ‖σ q * k‖ = ‖(σ q * k - q * k) + q * k‖ := by rw [← this]
      _ ≤ ‖σ q * k - q * k‖ + ‖q * k‖ := norm_add_le _ _
      _ ≤ ε * ‖q * k‖ + ‖q * k‖ := by linarith
      _ = (1 + ε) * ‖q * k‖ := by ring
  have h3 : ‖σ (σ q * k) - σ q * k‖ ≤ ε * ((1 + ε) * ‖q * k‖) :=
    (hσ _).trans (mul_le_mul_of_nonneg_left h2 hε)
  calc ‖σ (σ q * k) - q * k‖ = ‖(σ (σ q * k) - σ q * k) + (σ q * k - q * k)‖ := by ring_nf
    _ ≤ ‖σ (σ q * k) - σ q * k‖ + ‖σ q * k - q * k‖ := norm_add_le _ _
    _ ≤ ε * ((1 + ε) * ‖q * k‖) + ε * ‖q * k‖ := by linarith
    _ = (2 * ε + ε ^ 2) * ‖q * k‖ := by ring

/-- non-vacuity of the rounding hypothesis: the identity rounds with `ε = 0`, and a relative perturbation
`σ c = (1 + η) c` rounds with `ε = ‖η‖` -/
example : ∀ c : ℂ, ‖id c - c‖ ≤ 0 * ‖c‖ := by intro c; simp
example (η : ℂ) : ∀ c : ℂ, ‖(1 + η) * c - c‖ ≤ ‖η‖ * ‖c‖ := by
  intro c
  have : (1 + η) * c - c = η * c := by ring
  rw [this, norm_mul]

end BLDFM.C12
