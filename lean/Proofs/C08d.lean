/-
  C08 — REVERSING THE WIND POINT-REFLECTS THE FOOTPRINT ABOUT THE TOWER (whole model pipeline).

  `wind_opposite` (C08.lean): the directions `wd` and `wd + 180` give opposite winds `(u, v)` and `(-u, -v)`; the closures keep the
  direction with height (C09), so the whole profile is negated.  Here: a footprint request with both wind components negated at
  every node returns, on the periodic padded domain, the point reflection of the original footprint about the tower's cell
  `(J_m, I_m) = (j_m + p_y, i_m + p_x)`:

        field'[J, I] = field[J', I']      whenever   I + I' ≡ 2 I_m (mod N_x),  J + J' ≡ 2 J_m (mod N_y)

  for the footprint and for the concentration Green's function, every level, numeric and analytic, every halo / truncation
  with odd retained-mode counts (every Fourier component then has its partner of opposite wave vector; with even counts the
  Nyquist components have none and are excluded, as in C07).  So whatever side of the tower the footprint lies on for one wind
  direction, it lies on the opposite side for the opposite direction: together with `mode_crest_upwind` (C08b) this pins the
  orientation of the convention end to end.

    * `column_reverse`          : `W(L; -U) = W(-L; U)` for the numerical and the analytic column (x- and y-mirror composed);
    * `reverse_component`       : the coefficient pair of the reversed run at `(a, b)` is that of the original at `(ā, b̄)`;
    * `reverse_point_reflection`: the field identity above.
-/
import Proofs.C07g

open BLDFM BLDFM.Spec BLDFM.Index

namespace BLDFM.C08

/-- both wind components negated at every node -/
def negUV (P : Profiles ℝ) : Profiles ℝ := C07.mirrorY (C07.mirrorX P)

/-- `r'` is `r` with the wind reversed -/
def Reversed (r r' : SolveReq ℝ) : Prop := r' = { r with P := negUV r.P }

theorem columnNum_reverse (P : Profiles ℝ) (z : ℕ → ℝ) (top : ℕ) (Lx Ly : ℝ) (qh : ℂ) (l : ℕ) :
    columnNum RC (negUV P) z top Lx Ly qh l = columnNum RC P z top (-Lx) (-Ly) qh l := by
  have h1 := C07.column_mirrorY (C07.mirrorX P) z top Lx (-Ly) qh l
  rw [neg_neg] at h1
  have h2 := C07.column_mirrorX P z top (-Lx) (-Ly) qh l
  rw [neg_neg] at h2
  unfold negUV
  rw [h1, h2]

theorem columnAna_reverse (P : Profiles ℝ) (z : ℕ → ℝ) (top : ℕ) (Lx Ly : ℝ) (qh : ℂ) (l : ℕ) :
    columnAna RC (negUV P) z top Lx Ly qh l = columnAna RC P z top (-Lx) (-Ly) qh l := by
  have h1 := (C07.columnAna_symm (C07.mirrorX P) z top Lx (-Ly) qh l).2.1
  rw [neg_neg] at h1
  have h2 := (C07.columnAna_symm P z top (-Lx) (-Ly) qh l).1
  rw [neg_neg] at h2
  unfold negUV
  rw [h1, h2]

section
variable {r r' : SolveReq ℝ} (h : Reversed r r')
include h

theorem rev_geom : geom RC r' = geom RC r := by
  have e' : r' = _ := h
  rw [e']; rfl

theorem rev_shift (g : Geom ℝ) (a b : ℕ) : shiftFactor RC r' g a b = shiftFactor RC r g a b := by
  have e' : r' = _ := h
  rw [e']; rfl

/-- wind reversal, component form (footprint mode): slot `(a, b)` of the reversed run is slot `(ā, b̄)` of the original -/
theorem reverse_component (hp : r.precision = .double) (hfp : r.footprint = true) (l a b aa bb : ℕ)
    (ha : a < (geom RC r).nly) (haa : aa < (geom RC r).nly) (hb : b < (geom RC r).nlx) (hbb : bb < (geom RC r).nlx)
    (hfa : sfreq (geom RC r).nly aa = -sfreq (geom RC r).nly a) (hfb : sfreq (geom RC r).nlx bb = -sfreq (geom RC r).nlx b) :
    modeCoef RC r' (geom RC r) (srcSpectrum RC r' (geom RC r)).get l a b =
      modeCoef RC r (geom RC r) (srcSpectrum RC r (geom RC r)).get l aa bb := by
  have e' : r' = _ := h
  have hwx : waveX RC (geom RC r) b = -waveX RC (geom RC r) bb := by
    unfold waveX
    rw [freqR_eq _ _ hb, freqR_eq _ _ hbb, hfb]
    simp only [Int.cast_neg, mul_neg, neg_neg]
  have hwy : waveY RC (geom RC r) a = -waveY RC (geom RC r) aa := by
    unfold waveY
    rw [freqR_eq _ _ ha, freqR_eq _ _ haa, hfa]
    simp only [Int.cast_neg, mul_neg, neg_neg]
  have fan : r'.analytic = r.analytic := by rw [e']
  have fP : r'.P = negUV r.P := by rw [e']
  have fz : r'.z = r.z := by rw [e']
  have fnz : r'.nz = r.nz := by rw [e']
  have fbg : r'.bg = r.bg := by rw [e']
  have fpr : r'.precision = .double := by rw [e']; exact hp
  have fp' : r'.footprint = true := by rw [e']; exact hfp
  have hS : ∀ x y x' y', (srcSpectrum RC r' (geom RC r)).get x y = (srcSpectrum RC r (geom RC r)).get x' y' := by
    intro x y x' y'
    simp only [srcSpectrum, fp', hfp, if_true, Tab2.get_tab]
  have ha0 : a = 0 ↔ aa = 0 := by
    rw [← C11.sfreq_eq_zero_iff _ a ha, ← C11.sfreq_eq_zero_iff _ aa haa, hfa, neg_eq_zero]
  have hb0 : b = 0 ↔ bb = 0 := by
    rw [← C11.sfreq_eq_zero_iff _ b hb, ← C11.sfreq_eq_zero_iff _ bb hbb, hfb, neg_eq_zero]
  unfold modeCoef
  simp only [storeP, fpr, hp, fan, fP, fz, fnz, fbg]
  by_cases hab : a = 0 ∧ b = 0
  · have hab' : aa = 0 ∧ bb = 0 := ⟨ha0.mp hab.1, hb0.mp hab.2⟩
    rw [if_pos hab, if_pos hab', hS 0 0 0 0]
    rfl
  · have hab' : ¬(aa = 0 ∧ bb = 0) := fun hh => hab ⟨ha0.mpr hh.1, hb0.mpr hh.2⟩
    rw [if_neg hab, if_neg hab', hS a b aa bb, hwx, hwy]
    cases han : r.analytic
    · simp only [Bool.false_eq_true, if_false]
      rw [columnNum_reverse, neg_neg, neg_neg]
    · simp only [if_true]
      rw [columnAna_reverse, neg_neg, neg_neg]

/-- **WIND REVERSAL = POINT REFLECTION ABOUT THE TOWER** (footprint mode, on-grid tower, odd retained-mode counts) -/
theorem reverse_point_reflection (hg : GeomOK (geom RC r)) (hp : r.precision = .double) (hfp : r.footprint = true)
    (im jm : ℕ) (hxm : r.xm = im * (geom RC r).dx) (hym : r.ym = jm * (geom RC r).dy)
    (hdx : (geom RC r).dx ≠ 0) (hdy : (geom RC r).dy ≠ 0)
    (hoddx : (geom RC r).nlx % 2 = 1) (hoddy : (geom RC r).nly % 2 = 1)
    (l J I J' I' : ℕ) (tx ty : ℤ)
    (hI : (I : ℤ) + I' = 2 * ((im + (geom RC r).px : ℕ) : ℤ) + (geom RC r).nxe * tx)
    (hJ : (J : ℤ) + J' = 2 * ((jm + (geom RC r).py : ℕ) : ℤ) + (geom RC r).nye * ty) :
    (fieldsAt RC r' (geom RC r') (srcSpectrum RC r' (geom RC r')).get l).1.get J I
      = (fieldsAt RC r (geom RC r) (srcSpectrum RC r (geom RC r)).get l).1.get J' I' ∧
    (fieldsAt RC r' (geom RC r') (srcSpectrum RC r' (geom RC r')).get l).2.get J I
      = (fieldsAt RC r (geom RC r) (srcSpectrum RC r (geom RC r)).get l).2.get J' I' := by
  have e' : r' = _ := h
  have g' := rev_geom h
  rw [g']
  have fp' : r'.footprint = true := by rw [e']; exact hfp
  have hNx := hg.Nx_pos
  have hNy := hg.Ny_pos
  have hs := C03.signPair_of true
  simp only [if_true] at hs
  have e1 := C03.fieldsAt_eq r' (geom RC r) (srcSpectrum RC r' (geom RC r)).get l
  have e0 := C03.fieldsAt_eq r (geom RC r) (srcSpectrum RC r (geom RC r)).get l
  rw [fp'] at e1
  rw [hfp] at e0
  simp only [if_true] at e1 e0
  set g := geom RC r with hgd
  -- partner involutions on both axes
  let barx : ℕ → ℕ := fun b => (g.nlx - b) % g.nlx
  let bary : ℕ → ℕ := fun a => (g.nly - a) % g.nly
  have hbarx : ∀ b, b < g.nlx → barx b < g.nlx ∧ sfreq g.nlx (barx b) = -sfreq g.nlx b := by
    intro b hb
    have hodd' : g.nlx % 2 = 1 := hoddx
    exact C07.sfreq_partner g.nlx b hb (by omega)
  have hbary : ∀ a, a < g.nly → bary a < g.nly ∧ sfreq g.nly (bary a) = -sfreq g.nly a := by
    intro a ha
    have hodd' : g.nly % 2 = 1 := hoddy
    exact C07.sfreq_partner g.nly a ha (by omega)
  have hinv : ∀ n b : ℕ, b < n → (n - (n - b) % n) % n = b := by
    intro n b hb
    rcases Nat.eq_zero_or_pos b with rfl | hpos
    · simp
    · rw [Nat.mod_eq_of_lt (show n - b < n by omega), Nat.mod_eq_of_lt (show n - (n - b) < n by omega)]; omega
  have reidx : ∀ (n : ℕ) (G : ℕ → ℂ), ∑ b ∈ Finset.range n, G ((n - b) % n) = ∑ b ∈ Finset.range n, G b := by
    intro n G
    rcases Nat.eq_zero_or_pos n with rfl | hn
    · simp
    apply Finset.sum_nbij' (fun b => (n - b) % n) (fun b => (n - b) % n)
    · intro b _; exact Finset.mem_range.mpr (Nat.mod_lt _ hn)
    · intro b _; exact Finset.mem_range.mpr (Nat.mod_lt _ hn)
    · intro b hb; exact hinv n b (Finset.mem_range.mp hb)
    · intro b hb; exact hinv n b (Finset.mem_range.mp hb)
    · intro b _; rfl
  -- the tower's phase at a slot and at its partner
  have sh : ∀ a b, a < g.nly → b < g.nlx → shiftFactor RC r g a b =
      rootPow g.nxe (sfreq g.nlx b * ((im + g.px : ℕ) : ℤ)) * rootPow g.nye (sfreq g.nly a * ((jm + g.py : ℕ) : ℤ)) := by
    intro a b ha hb
    exact C06.footprint_phase_on_grid r hfp a b im jm hxm hym ha hb hdx hdy hNx hNy
  -- per-term phase identity
  have phase : ∀ a b, a < g.nly → b < g.nlx →
      shiftFactor RC r g a b * rootPow g.nxe (-1 * sfreq g.nlx b * I) * rootPow g.nye (-1 * sfreq g.nly a * J)
        = shiftFactor RC r g (bary a) (barx b) * rootPow g.nxe (-1 * sfreq g.nlx (barx b) * I') *
            rootPow g.nye (-1 * sfreq g.nly (bary a) * J') := by
    intro a b ha hb
    rw [sh a b ha hb, sh (bary a) (barx b) (hbary a ha).1 (hbarx b hb).1, (hbarx b hb).2, (hbary a ha).2]
    have ex : rootPow g.nxe (sfreq g.nlx b * ((im + g.px : ℕ) : ℤ)) * rootPow g.nxe (-1 * sfreq g.nlx b * I)
        = rootPow g.nxe (-sfreq g.nlx b * ((im + g.px : ℕ) : ℤ)) * rootPow g.nxe (-1 * -sfreq g.nlx b * I') := by
      rw [← rootPow_add, ← rootPow_add]
      have hI' : (I' : ℤ) = 2 * ((im + g.px : ℕ) : ℤ) + g.nxe * tx - I := by linarith
      have : -sfreq g.nlx b * ((im + g.px : ℕ) : ℤ) + -1 * -sfreq g.nlx b * I'
          = (sfreq g.nlx b * ((im + g.px : ℕ) : ℤ) + -1 * sfreq g.nlx b * I) + g.nxe * (sfreq g.nlx b * tx) := by
        rw [hI']; ring
      rw [this, rootPow_add_mul _ hNx]
    have ey : rootPow g.nye (sfreq g.nly a * ((jm + g.py : ℕ) : ℤ)) * rootPow g.nye (-1 * sfreq g.nly a * J)
        = rootPow g.nye (-sfreq g.nly a * ((jm + g.py : ℕ) : ℤ)) * rootPow g.nye (-1 * -sfreq g.nly a * J') := by
      rw [← rootPow_add, ← rootPow_add]
      have hJ' : (J' : ℤ) = 2 * ((jm + g.py : ℕ) : ℤ) + g.nye * ty - J := by linarith
      have : -sfreq g.nly a * ((jm + g.py : ℕ) : ℤ) + -1 * -sfreq g.nly a * J'
          = (sfreq g.nly a * ((jm + g.py : ℕ) : ℤ) + -1 * sfreq g.nly a * J) + g.nye * (sfreq g.nly a * ty) := by
        rw [hJ']; ring
      rw [this, rootPow_add_mul _ hNy]
    calc rootPow g.nxe (sfreq g.nlx b * ((im + g.px : ℕ) : ℤ)) * rootPow g.nye (sfreq g.nly a * ((jm + g.py : ℕ) : ℤ))
            * rootPow g.nxe (-1 * sfreq g.nlx b * I) * rootPow g.nye (-1 * sfreq g.nly a * J)
        = (rootPow g.nxe (sfreq g.nlx b * ((im + g.px : ℕ) : ℤ)) * rootPow g.nxe (-1 * sfreq g.nlx b * I))
            * (rootPow g.nye (sfreq g.nly a * ((jm + g.py : ℕ) : ℤ)) * rootPow g.nye (-1 * sfreq g.nly a * J)) := by ring
      _ = (rootPow g.nxe (-sfreq g.nlx b * ((im + g.px : ℕ) : ℤ)) * rootPow g.nxe (-1 * -sfreq g.nlx b * I'))
            * (rootPow g.nye (-sfreq g.nly a * ((jm + g.py : ℕ) : ℤ)) * rootPow g.nye (-1 * -sfreq g.nly a * J')) := by rw [ex, ey]
      _ = _ := by ring
  -- the two field identities share one computation
  have main : ∀ (sel : ℂ × ℂ → ℂ),
      (∑ a ∈ Finset.range g.nly, ∑ b ∈ Finset.range g.nlx,
        sel (modeCoef RC r' g (srcSpectrum RC r' g).get l a b) * shiftFactor RC r' g a b *
          rootPow g.nxe (-1 * sfreq g.nlx b * I) * rootPow g.nye (-1 * sfreq g.nly a * J))
      = ∑ a ∈ Finset.range g.nly, ∑ b ∈ Finset.range g.nlx,
        sel (modeCoef RC r g (srcSpectrum RC r g).get l a b) * shiftFactor RC r g a b *
          rootPow g.nxe (-1 * sfreq g.nlx b * I') * rootPow g.nye (-1 * sfreq g.nly a * J') := by
    intro sel
    rw [← reidx g.nly (fun a => ∑ b ∈ Finset.range g.nlx,
        sel (modeCoef RC r g (srcSpectrum RC r g).get l a b) * shiftFactor RC r g a b *
          rootPow g.nxe (-1 * sfreq g.nlx b * I') * rootPow g.nye (-1 * sfreq g.nly a * J'))]
    apply Finset.sum_congr rfl; intro a ha
    have ha' := Finset.mem_range.mp ha
    rw [← reidx g.nlx (fun b => sel (modeCoef RC r g (srcSpectrum RC r g).get l ((g.nly - a) % g.nly) b) *
          shiftFactor RC r g ((g.nly - a) % g.nly) b *
          rootPow g.nxe (-1 * sfreq g.nlx b * I') * rootPow g.nye (-1 * sfreq g.nly ((g.nly - a) % g.nly) * J'))]
    apply Finset.sum_congr rfl; intro b hb
    have hb' := Finset.mem_range.mp hb
    rw [reverse_component h hp hfp l a b (bary a) (barx b) ha' (hbary a ha').1 hb' (hbarx b hb').1 (hbary a ha').2 (hbarx b hb').2,
      rev_shift h g a b]
    have ph := phase a b ha' hb'
    calc sel (modeCoef RC r g (srcSpectrum RC r g).get l (bary a) (barx b)) * shiftFactor RC r g a b *
            rootPow g.nxe (-1 * sfreq g.nlx b * I) * rootPow g.nye (-1 * sfreq g.nly a * J)
        = sel (modeCoef RC r g (srcSpectrum RC r g).get l (bary a) (barx b)) *
            (shiftFactor RC r g a b * rootPow g.nxe (-1 * sfreq g.nlx b * I) * rootPow g.nye (-1 * sfreq g.nly a * J)) := by ring
      _ = sel (modeCoef RC r g (srcSpectrum RC r g).get l (bary a) (barx b)) *
            (shiftFactor RC r g (bary a) (barx b) * rootPow g.nxe (-1 * sfreq g.nlx (barx b) * I') *
              rootPow g.nye (-1 * sfreq g.nly (bary a) * J')) := by rw [ph]
      _ = _ := by ring
  refine ⟨?_, ?_⟩
  · rw [e1.1, e0.1, solver_repr (-1) (-1.0) hs g hg, solver_repr (-1) (-1.0) hs g hg]
    exact main Prod.fst
  · rw [e1.2, e0.2, solver_repr (-1) (-1.0) hs g hg, solver_repr (-1) (-1.0) hs g hg]
    exact main Prod.snd

end

/-! ### non-vacuity: 5 × 5 cells, all five modes retained on each axis (6 requested, clamped), the tower on cell (1, 1) -/
example : ∃ (r r' : SolveReq ℝ) (im jm : ℕ), Reversed r r' ∧ GeomOK (geom RC r) ∧ r.precision = .double ∧
    r.footprint = true ∧ r.xm = im * (geom RC r).dx ∧ r.ym = jm * (geom RC r).dy ∧
    (geom RC r).dx ≠ 0 ∧ (geom RC r).dy ≠ 0 ∧ (geom RC r).nlx % 2 = 1 ∧ (geom RC r).nly % 2 = 1 := by
  refine ⟨{ Witness.wreq true with ny := 5, nlx := 6, nly := 6, ymx := 50 }, _, 1, 1, rfl, ?_, rfl, rfl, ?_, ?_, ?_, ?_, ?_, ?_⟩
  · exact C03.geomOK_of_request _ (by simp [Witness.wreq]) (by simp [Witness.wreq]) (by simp [Witness.wreq])
      (by simp [Witness.wreq]) (by simp [Witness.wreq]) (by simp [Witness.wreq])
  · simp [geom, Witness.wreq, RC]; norm_num
  · simp [geom, Witness.wreq, RC]; norm_num
  · simp [geom, Witness.wreq, RC]
  · simp [geom, Witness.wreq, RC]
  · simp [geom, clampModes, Witness.wreq, RC]
  · simp [geom, clampModes, Witness.wreq, RC]

end BLDFM.C08
