/-
  C06 (point-reflection clause, whole model pipeline) — THE FOOTPRINT FOR A POINT IS THE POINT REFLECTION, ABOUT THAT
  POINT, OF THE RESPONSE TO A UNIT SOURCE PLACED THERE:
      footprint_{tower (jm, im)}[j0, i0]  =  response_{unit source at (jm, im)}[2 jm − j0, 2 im − i0]   (cyclically on
  the padded grid).  It is the reciprocity theorem of C02 (applied to a unit source at `(j0, i0)`) composed with the
  source-shift theorem of C06 (moving that unit source to the tower cell).
-/
import Proofs.Lemmas.Spec
import Proofs.Lemmas.Tactics
import Proofs.Lemmas.Repr
import Proofs.C02b
import Proofs.C06b
import Proofs.Lemmas.Witness

open BLDFM BLDFM.Spec BLDFM.Index

namespace BLDFM.C06

/-- the request with a unit source in cell `(j, i)` -/
def impulseAt (r : SolveReq ℝ) (j i : ℕ) : SolveReq ℝ :=
  { r with q := fun j' i' => if j' = j ∧ i' = i then 1 else 0 }

theorem impulse_geom (r : SolveReq ℝ) (j i : ℕ) : geom RC (impulseAt r j i) = geom RC r := rfl

/-- the padded unit source -/
theorem impulse_padSrc (r : SolveReq ℝ) (j i : ℕ) (hj : j < r.ny) (hi : i < r.nx) (J I : ℕ) :
    padSrc RC (impulseAt r j i) (geom RC r) J I = if J = j + (geom RC r).py ∧ I = i + (geom RC r).px then 1 else 0 := by
  unfold padSrc impulseAt
  simp only []
  by_cases hw : (geom RC r).py ≤ J ∧ J < (geom RC r).py + r.ny ∧ (geom RC r).px ≤ I ∧ I < (geom RC r).px + r.nx
  · rw [if_pos hw]
    by_cases hh : J - (geom RC r).py = j ∧ I - (geom RC r).px = i
    · rw [if_pos hh, if_pos ⟨by omega, by omega⟩]; simp [RC_ofReal]
    · rw [if_neg hh, if_neg (fun h2 => hh ⟨by omega, by omega⟩)]; simp [RC_ofReal]
  · rw [if_neg hw, if_neg (fun h2 => hw ⟨by omega, by omega, by omega, by omega⟩)]
    norm_num

/-- in footprint mode the padded-domain fields do not depend on the source values -/
theorem fields_indep_source (req : SolveReq ℝ) (hfp : req.footprint = true) (q' : ℕ → ℕ → ℝ) (l : ℕ) :
    fieldsAt RC { req with q := q' } (geom RC req) (srcSpectrum RC { req with q := q' } (geom RC req)).get l
      = fieldsAt RC req (geom RC req) (srcSpectrum RC req (geom RC req)).get l := by
  have hS : srcSpectrum RC { req with q := q' } (geom RC req) = srcSpectrum RC req (geom RC req) := by
    simp only [srcSpectrum, hfp, if_true]
  have hc : ∀ S a b, modeCoef RC { req with q := q' } (geom RC req) S l a b = modeCoef RC req (geom RC req) S l a b :=
    fun _ _ _ => rfl
  have hsft : ∀ a b, shiftFactor RC { req with q := q' } (geom RC req) a b = shiftFactor RC req (geom RC req) a b :=
    fun _ _ => rfl
  rw [hS]
  unfold fieldsAt
  simp only [hc, hsft]

/-- the padded unit sources at two cells are cyclic rolls of one another -/
theorem impulse_roll (r0 : SolveReq ℝ) (hg : GeomOK (geom RC r0)) (im jm i0 j0 : ℕ)
    (him : im < r0.nx) (hjm : jm < r0.ny) (hi0 : i0 < r0.nx) (hj0 : j0 < r0.ny) :
    ∀ J I, J < (geom RC r0).nye → I < (geom RC r0).nxe →
      padSrc RC (impulseAt r0 j0 i0) (geom RC r0) J I =
        padSrc RC (impulseAt r0 jm im) (geom RC r0) ((((J : ℤ) - ((j0 : ℤ) - jm)) % (geom RC r0).nye).toNat)
          ((((I : ℤ) - ((i0 : ℤ) - im)) % (geom RC r0).nxe).toNat) := by
  intro J I hJ' hI'
  set g := geom RC r0 with hgdef
  have hNx := hg.Nx_pos
  have hNy := hg.Ny_pos
  have hxe : g.nxe = r0.nx + 2 * g.px := C11.geom_nxe r0
  have hye : g.nye = r0.ny + 2 * g.py := C11.geom_nye r0
  rw [impulse_padSrc r0 j0 i0 hj0 hi0, impulse_padSrc r0 jm im hjm him]
  have hNyz : (0 : ℤ) < g.nye := by exact_mod_cast hNy
  have hNxz : (0 : ℤ) < g.nxe := by exact_mod_cast hNx
  have keyJ : (J = j0 + g.py) ↔ ((((J : ℤ) - ((j0 : ℤ) - jm)) % g.nye).toNat = jm + g.py) := by
    constructor
    · intro h; subst h
      have : ((j0 + g.py : ℕ) : ℤ) - ((j0 : ℤ) - jm) = ((jm + g.py : ℕ) : ℤ) := by push_cast; ring
      rw [this, Int.emod_eq_of_lt (by positivity) (by exact_mod_cast (by omega : jm + g.py < g.nye))]
      exact Int.toNat_natCast _
    · intro h
      have h1 := Int.emod_nonneg ((J : ℤ) - ((j0 : ℤ) - jm)) hNyz.ne'
      have h2 : (((J : ℤ) - ((j0 : ℤ) - jm)) % g.nye) = ((jm + g.py : ℕ) : ℤ) := by
        rw [← h]; exact (Int.toNat_of_nonneg h1).symm
      have h3 := Int.emod_add_mul_ediv ((J : ℤ) - ((j0 : ℤ) - jm)) g.nye
      rw [h2] at h3
      -- J − (j0 − jm) = jm + py + Ny·t, with 0 ≤ J < Ny and 0 ≤ j0 + py < Ny  ⇒  t = 0
      have hb1 : (0 : ℤ) ≤ J := by positivity
      have hb2 : (J : ℤ) < g.nye := by exact_mod_cast hJ'
      have hb3 : ((j0 + g.py : ℕ) : ℤ) < g.nye := by exact_mod_cast (by omega : j0 + g.py < g.nye)
      set t := ((J : ℤ) - ((j0 : ℤ) - jm)) / (g.nye : ℤ) with ht
      have : t = 0 := by
        push_cast at h3 hb3
        by_contra hne
        rcases lt_or_gt_of_ne hne with hlt | hgt
        · have : (g.nye : ℤ) * t ≤ -(g.nye : ℤ) := by nlinarith
          nlinarith
        · have : (g.nye : ℤ) * t ≥ (g.nye : ℤ) := by nlinarith
          nlinarith
      rw [this] at h3
      push_cast at h3
      omega
  have keyI : (I = i0 + g.px) ↔ ((((I : ℤ) - ((i0 : ℤ) - im)) % g.nxe).toNat = im + g.px) := by
    constructor
    · intro h; subst h
      have : ((i0 + g.px : ℕ) : ℤ) - ((i0 : ℤ) - im) = ((im + g.px : ℕ) : ℤ) := by push_cast; ring
      rw [this, Int.emod_eq_of_lt (by positivity) (by exact_mod_cast (by omega : im + g.px < g.nxe))]
      exact Int.toNat_natCast _
    · intro h
      have h1 := Int.emod_nonneg ((I : ℤ) - ((i0 : ℤ) - im)) hNxz.ne'
      have h2 : (((I : ℤ) - ((i0 : ℤ) - im)) % g.nxe) = ((im + g.px : ℕ) : ℤ) := by
        rw [← h]; exact (Int.toNat_of_nonneg h1).symm
      have h3 := Int.emod_add_mul_ediv ((I : ℤ) - ((i0 : ℤ) - im)) g.nxe
      rw [h2] at h3
      have hb1 : (0 : ℤ) ≤ I := by positivity
      have hb2 : (I : ℤ) < g.nxe := by exact_mod_cast hI'
      have hb3 : ((i0 + g.px : ℕ) : ℤ) < g.nxe := by exact_mod_cast (by omega : i0 + g.px < g.nxe)
      set t := ((I : ℤ) - ((i0 : ℤ) - im)) / (g.nxe : ℤ) with ht
      have : t = 0 := by
        push_cast at h3 hb3
        by_contra hne
        rcases lt_or_gt_of_ne hne with hlt | hgt
        · have : (g.nxe : ℤ) * t ≤ -(g.nxe : ℤ) := by nlinarith
          nlinarith
        · have : (g.nxe : ℤ) * t ≥ (g.nxe : ℤ) := by nlinarith
          nlinarith
      rw [this] at h3
      push_cast at h3
      omega
  by_cases hc : J = j0 + g.py ∧ I = i0 + g.px
  · rw [if_pos hc, if_pos ⟨keyJ.mp hc.1, keyI.mp hc.2⟩]
  · rw [if_neg hc, if_neg (fun hh => hc ⟨keyJ.mpr hh.1, keyI.mpr hh.2⟩)]

/-- POINT REFLECTION (flux footprint) -/
theorem footprint_point_reflection (r0 : SolveReq ℝ) (hg : GeomOK (geom RC r0)) (hp : r0.precision = .double)
    (hden : C02.DenOK r0) (hfp : r0.footprint = false) (hxm : r0.xm = 0) (hym : r0.ym = 0)
    (hdx : (geom RC r0).dx ≠ 0) (hdy : (geom RC r0).dy ≠ 0)
    (im jm i0 j0 l : ℕ) (him : im < r0.nx) (hjm : jm < r0.ny) (hi0 : i0 < r0.nx) (hj0 : j0 < r0.ny)
    (J' I' : ℕ) (tx ty : ℤ)
    (hI : ((im + (geom RC r0).px : ℕ) : ℤ) - ((i0 : ℤ) - im) = I' + (geom RC r0).nxe * tx)
    (hJ : ((jm + (geom RC r0).py : ℕ) : ℤ) - ((j0 : ℤ) - jm) = J' + (geom RC r0).nye * ty) :
    let g := geom RC r0
    let rf : SolveReq ℝ := { r0 with footprint := true, xm := im * g.dx, ym := jm * g.dy }
    let ru := impulseAt r0 jm im
    (fieldsAt RC rf g (srcSpectrum RC rf g).get l).2.get (j0 + g.py) (i0 + g.px)
      = (fieldsAt RC ru g (srcSpectrum RC ru g).get l).2.get J' I' := by
  intro g rf ru
  have hNx := hg.Nx_pos
  have hNy := hg.Ny_pos
  have hxe : g.nxe = r0.nx + 2 * g.px := C11.geom_nxe r0
  have hye : g.nye = r0.ny + 2 * g.py := C11.geom_nye r0
  -- 1. reciprocity for the unit source at (j0, i0)
  let rd := impulseAt r0 j0 i0
  have hgd : geom RC rd = g := rfl
  have recp := C02.footprint_reciprocity_flux rd (by rw [hgd]; exact hg) hp hden hfp hxm hym im jm l
    (by rw [hgd]; exact hdx) (by rw [hgd]; exact hdy)
  simp only [hgd] at recp
  have hsame : fieldsAt RC { rd with footprint := true, xm := im * g.dx, ym := jm * g.dy } g
        (srcSpectrum RC { rd with footprint := true, xm := im * g.dx, ym := jm * g.dy } g).get l
      = fieldsAt RC rf g (srcSpectrum RC rf g).get l :=
    fields_indep_source rf rfl _ l
  rw [hsame] at recp
  -- the weighted sum picks the single cell (j0 + py, i0 + px)
  have pick : ∑ J ∈ Finset.range g.nye, ∑ I ∈ Finset.range g.nxe,
        padSrc RC rd g J I * (fieldsAt RC rf g (srcSpectrum RC rf g).get l).2.get J I
      = (fieldsAt RC rf g (srcSpectrum RC rf g).get l).2.get (j0 + g.py) (i0 + g.px) := by
    rw [Finset.sum_eq_single (j0 + g.py)]
    · rw [Finset.sum_eq_single (i0 + g.px)]
      · rw [impulse_padSrc r0 j0 i0 hj0 hi0, if_pos ⟨rfl, rfl⟩, one_mul]
      · intro I _ hne
        rw [impulse_padSrc r0 j0 i0 hj0 hi0, if_neg (fun hh => hne hh.2), zero_mul]
      · intro hh; exact absurd (Finset.mem_range.mpr (by omega)) hh
    · intro J _ hne
      apply Finset.sum_eq_zero; intro I _
      rw [impulse_padSrc r0 j0 i0 hj0 hi0, if_neg (fun hh => hne hh.1), zero_mul]
    · intro hh; exact absurd (Finset.mem_range.mpr (by omega)) hh
  rw [pick] at recp
  rw [recp]
  -- 2. move the unit source from (j0, i0) to the tower cell (jm, im)
  have hroll := impulse_roll r0 hg im jm i0 j0 him hjm hi0 hj0
  have sh := source_shift_field ru rd rfl rfl hg hp hden hfp ((i0 : ℤ) - im) ((j0 : ℤ) - jm) hroll l
    (jm + g.py) (im + g.px) J' I' tx ty hI hJ
  exact sh.2

end BLDFM.C06
