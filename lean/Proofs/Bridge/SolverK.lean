/-
  Bridge: the kernels regenerated from src/bldfm/solver.py (BLDFM.Generated.SolverK)
  equal the hand-written model kernels, for all inputs, over ℝ/ℂ.
  Re-elaborated whenever the generated file changes.
-/
import Proofs.Lemmas.Spec
import BLDFM.Generated.SolverK
import Proofs.Lemmas.Tactics

open BLDFM BLDFM.Spec

namespace BLDFM.Bridge

/-- the sweep's loop body is the model's layer step with node-`i` coefficients -/
theorem ivpBody_bridge (P : Profiles ℝ) (z : ℕ → ℝ) (Lx Ly : ℝ) (i : ℕ) (p q : ℂ) :
    Generated.ivpBody RC P.u P.v P.Kx P.Ky P.Kz z Lx Ly i p q =
      layerStep (Tcoef RC P Lx Ly i) (RC.ofReal (1.0 / P.Kz i)) (RC.ofReal (z (i + 1) - z i)) (p, q) := by
  simp only [Generated.ivpBody, layerStep, coefA, coefB, coefC, coefD, Tcoef, RC]
  refine Prod.ext ?_ ?_ <;> bridge_ring

theorem eigval_bridge (P : Profiles ℝ) (z : ℕ → ℝ) (nz : ℕ) (Lx Ly : ℝ) :
    Generated.eigval RC P.u P.v P.Kx P.Ky P.Kz z nz Lx Ly = eigval RC P (nz - 1) Lx Ly := by
  simp only [Generated.eigval, eigval, RC]
  congr 1
  bridge_ring

theorem alpha_bridge (P : Profiles ℝ) (z : ℕ → ℝ) (nz : ℕ) (lam p1 q1 p2 q2 : ℂ) :
    Generated.alpha RC P.u P.v P.Kx P.Ky P.Kz z nz lam p1 q1 p2 q2 =
      alphaShoot RC (P.Kz (nz - 1)) lam (p1, q1) (p2, q2) := by
  simp only [Generated.alpha, alphaShoot, RC]

theorem combine_bridge (al pm1 pm2 qm1 qm2 : ℂ) :
    (Generated.combineP RC al pm1 pm2, Generated.combineQ RC al qm1 qm2) =
      (al * pm1 + pm2, al * qm1 + qm2) := by
  simp only [Generated.combineP, Generated.combineQ]

/-- one step of the mean-mode loop adds one trapezoid term of the resistance -/
theorem meanStep_bridge (P : Profiles ℝ) (z : ℕ → ℝ) (i : ℕ) (bg q00 : ℂ) :
    Generated.meanStep RC P.u P.v P.Kx P.Ky P.Kz z i (meanNum RC P z bg q00 i) q00 =
      meanNum RC P z bg q00 (i + 1) := by
  simp only [Generated.meanStep, meanNum, resistNum, sumN, RC]
  bridge_ring

theorem ana_bridge (P : Profiles ℝ) (z : ℕ → ℝ) (nz : ℕ) (Lx Ly : ℝ) (qh : ℂ) (l : ℕ) :
    let lam := eigval RC P (nz - 1) Lx Ly
    let tq := Generated.anaQ RC qh lam (z l) P.u P.v P.Kx P.Ky P.Kz z
    (Generated.anaP RC tq lam nz P.u P.v P.Kx P.Ky P.Kz z, tq) = columnAna RC P z (nz - 1) Lx Ly qh l := by
  simp only [Generated.anaQ, Generated.anaP, columnAna, RC]

theorem anaMean_bridge (P : Profiles ℝ) (z : ℕ → ℝ) (nz : ℕ) (bg q00 : ℂ) (l : ℕ) :
    Generated.anaMean RC bg q00 (z l) nz P.u P.v P.Kx P.Ky P.Kz z = meanAna RC P z (nz - 1) bg q00 l := by
  simp only [Generated.anaMean, meanAna, RC]


/-- the halo actually used -/
noncomputable def haloOf (req : SolveReq ℝ) : ℝ := (geom RC req).halo

theorem haloDefault_bridge (req : SolveReq ℝ) (h : req.halo = none) :
    Generated.haloDefault RC req.xmx req.ymx = haloOf req := by
  simp only [Generated.haloDefault, haloOf, geom, h]

theorem haloExplicit (req : SolveReq ℝ) (x : ℝ) (h : req.halo = some x) : haloOf req = x := by
  simp only [haloOf, geom, h]

/-- grid increments, pad widths and extended sizes -/
theorem geom_bridge (req : SolveReq ℝ) :
    let g := geom RC req
    Generated.dxK RC req.xmx req.ymx req.nx req.ny (haloOf req) = g.dx ∧
    Generated.dyK RC req.xmx req.ymx req.nx req.ny (haloOf req) = g.dy ∧
    Generated.padX RC req.xmx req.ymx req.nx req.ny (haloOf req) = g.px ∧
    Generated.padY RC req.xmx req.ymx req.nx req.ny (haloOf req) = g.py ∧
    Generated.extX RC req.xmx req.ymx req.nx req.ny (haloOf req) = g.nxe ∧
    Generated.extY RC req.xmx req.ymx req.nx req.ny (haloOf req) = g.nye := by
  refine ⟨?_, ?_, ?_, ?_, ?_, ?_⟩ <;> rfl

theorem wave_bridge (req : SolveReq ℝ) (a b : ℕ) :
    let g := geom RC req
    Generated.waveX RC req.xmx req.ymx req.nx req.ny (haloOf req) (freqR RC g.nlx b) = waveX RC g b ∧
    Generated.waveY RC req.xmx req.ymx req.nx req.ny (haloOf req) (freqR RC g.nly a) = waveY RC g a := by
  refine ⟨?_, ?_⟩ <;> rfl

theorem fpSpectrum_bridge (req : SolveReq ℝ) (hfp : req.footprint = true) (a b : ℕ) :
    Generated.fpSpectrum RC req.xmx req.ymx req.nx req.ny (haloOf req) req.nlx req.nly =
      (srcSpectrum RC req (geom RC req)).get a b := by
  simp only [Generated.fpSpectrum, srcSpectrum, hfp, if_true, Tab2.get_tab, haloOf, geom, RC]
  bridge_ring

/-- footprint phase: the origin of the input grid sits at `(px·dx, py·dy)` in the padded domain -/
theorem shiftFootprint_bridge (req : SolveReq ℝ) (hfp : req.footprint = true) (a b : ℕ) :
    let g := geom RC req
    Generated.shiftFootprint RC (waveX RC g b) (waveY RC g a) req.xm req.ym req.xmx req.ymx
      req.nx req.ny (haloOf req) = shiftFactor RC req g a b := by
  simp only [Generated.shiftFootprint, shiftFactor, hfp, if_true, haloOf, geom, RC]

/-- dispersion-mode re-centring phase and its guard -/
theorem shiftRecentre_bridge (req : SolveReq ℝ) (hfp : req.footprint = false) (a b : ℕ) :
    let g := geom RC req
    (if Generated.recentreGuard RC req.xm req.ym then
      Generated.shiftRecentre RC (waveX RC g b) (waveY RC g a) req.xm req.ym req.xmx req.ymx
     else 1.0) = shiftFactor RC req g a b := by
  simp only [Generated.shiftRecentre, Generated.recentreGuard, shiftFactor, hfp, RC, gt_iff_lt,
    decide_eq_true_eq]
  rfl

end BLDFM.Bridge
