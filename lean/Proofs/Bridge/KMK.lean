/-
  Bridge: kernels regenerated from src/bldfm/ffm_kormann_meixner.py equal the model's (BLDFM/KM.lean).
-/
import Proofs.Lemmas.Spec
import Proofs.Lemmas.Tactics
import BLDFM.Generated.KMK

open BLDFM BLDFM.Spec

namespace BLDFM.Bridge

theorem km_helpers_bridge (zm L ws ustar : ℝ) :
    Generated.phiM RC zm L = kmPhiM RC zm L ∧
    Generated.phiC RC zm L = kmPhiC RC zm L ∧
    Generated.psiM RC zm L = kmPsiM RC zm L ∧
    Generated.nParam RC zm L = kmN zm L ∧
    Generated.mParam RC zm ws ustar L (kmPhiM RC) = kmM RC zm ws ustar L := by
  refine ⟨?_, ?_, ?_, ?_, ?_⟩
  · simp only [Generated.phiM, kmPhiM]
  · simp only [Generated.phiC, kmPhiC]
  · simp only [Generated.psiM, kmPsiM, kmPsiUnstable]
  · simp only [Generated.nParam, kmN]
  · simp only [Generated.mParam, kmM, vonKarman]

/-- the parameter chain of `estimateFootprint` -/
theorem km_params_bridge (zm z0 ws ustar L sigmaV res : ℝ) :
    let p := kmPar RC zm z0 ws ustar L sigmaV
    let G := RC.gamma
    Generated.efM RC zm z0 ws ustar L sigmaV res (kmPhiM RC) (kmPhiC RC) (kmPsiM RC) (kmM RC) kmN G = p.m ∧
    Generated.efN RC zm z0 ws ustar L sigmaV res (kmPhiM RC) (kmPhiC RC) (kmPsiM RC) (kmM RC) kmN G = p.n ∧
    Generated.efKappa RC zm z0 ws ustar L sigmaV res (kmPhiM RC) (kmPhiC RC) (kmPsiM RC) (kmM RC) kmN G
      p.m p.n p.kappa p.U p.r p.mu p.Xi p.gmm p.mr p.A p.num = p.kappa ∧
    Generated.efU RC zm z0 ws ustar L sigmaV res (kmPhiM RC) (kmPhiC RC) (kmPsiM RC) (kmM RC) kmN G
      p.m p.n p.kappa p.U p.r p.mu p.Xi p.gmm p.mr p.A p.num = p.U ∧
    Generated.efR RC zm z0 ws ustar L sigmaV res (kmPhiM RC) (kmPhiC RC) (kmPsiM RC) (kmM RC) kmN G
      p.m p.n p.kappa p.U p.r p.mu p.Xi p.gmm p.mr p.A p.num = p.r ∧
    Generated.efMu RC zm z0 ws ustar L sigmaV res (kmPhiM RC) (kmPhiC RC) (kmPsiM RC) (kmM RC) kmN G
      p.m p.n p.kappa p.U p.r p.mu p.Xi p.gmm p.mr p.A p.num = p.mu ∧
    Generated.efXi RC zm z0 ws ustar L sigmaV res (kmPhiM RC) (kmPhiC RC) (kmPsiM RC) (kmM RC) kmN G
      p.m p.n p.kappa p.U p.r p.mu p.Xi p.gmm p.mr p.A p.num = p.Xi ∧
    Generated.efGmm RC zm z0 ws ustar L sigmaV res (kmPhiM RC) (kmPhiC RC) (kmPsiM RC) (kmM RC) kmN G
      p.m p.n p.kappa p.U p.r p.mu p.Xi p.gmm p.mr p.A p.num = p.gmm ∧
    Generated.efMr RC zm z0 ws ustar L sigmaV res (kmPhiM RC) (kmPhiC RC) (kmPsiM RC) (kmM RC) kmN G
      p.m p.n p.kappa p.U p.r p.mu p.Xi p.gmm p.mr p.A p.num = p.mr ∧
    Generated.efA RC zm z0 ws ustar L sigmaV res (kmPhiM RC) (kmPhiC RC) (kmPsiM RC) (kmM RC) kmN G
      p.m p.n p.kappa p.U p.r p.mu p.Xi p.gmm p.mr p.A p.num = p.A ∧
    Generated.efNum RC zm z0 ws ustar L sigmaV res (kmPhiM RC) (kmPhiC RC) (kmPsiM RC) (kmM RC) kmN G
      p.m p.n p.kappa p.U p.r p.mu p.Xi p.gmm p.mr p.A p.num = p.num := by
  repeat' apply And.intro
  all_goals rfl

/-- coordinates, upwind test and the per-cell expression -/
theorem km_cell_bridge (gx gy mx my wd res x y : ℝ) (p : KmPar ℝ) :
    (Generated.efXplain RC gx gy mx my wd, Generated.efYplain RC gx gy mx my wd) = kmCoords RC gx gy mx my none ∧
    (Generated.efXrot RC gx gy mx my wd, Generated.efYrot RC gx gy mx my wd) = kmCoords RC gx gy mx my (some wd) ∧
    (if Generated.efUpwind RC x = true then
        Generated.efCell RC res x y p.m p.n p.kappa p.U p.r p.mu p.Xi p.gmm p.mr p.A p.num else 0.0)
      = kmCell RC p res x y := by
  refine ⟨rfl, rfl, ?_⟩
  simp only [Generated.efUpwind, Generated.efCell, kmCell, gt_iff_lt, decide_eq_true_eq]

theorem km_z0_bridge (zm ws ustar L : ℝ) :
    Generated.z0raw RC zm ws ustar L (kmPsiM RC) = kmZ0 RC zm ws ustar L := by
  simp only [Generated.z0raw, kmZ0, vonKarman]

end BLDFM.Bridge
