/-
  Bridge for the static extracts (tables regenerated from the AST on every run).
-/
import BLDFM.Generated.Tables
import BLDFM.Cache

namespace BLDFM.Bridge

open BLDFM.Generated.Tables

/-- C16: `n_timesteps` inspects all four list-capable fields; `validate` also `z0` and `timestamps` -/
theorem met_fields_table :
    metFieldsNTimesteps = ["mol", "ustar", "wind_dir", "wind_speed"] ∧
    metFieldsValidate = ["mol", "timestamps", "ustar", "wind_dir", "wind_speed", "z0"] := by decide

/-- C10: both sweeps (4 store sites) write a requested level at its own position -/
theorem level_store_table : levelStorePattern = ["by-position"] ∧ levelStoreSites = 4 := by decide

/-- C20: the step sequence of `get_source_area` is the modelled one: flatten, argsort descending,
gather, cumulative sum, shift by one (exclusive prefix sum), scatter back through the same order into
an array of the SUMS' dtype, reshape -/
theorem source_area_steps_table :
    sourceAreaSteps = ["f_flat = f.ravel()", "g_flat = g.ravel()", "order = np.argsort(g_flat)[::-1]",
      "f_sorted = f_flat[order]", "M_cum = np.cumsum(f_sorted)", "M_shifted = np.zeros_like(M_cum)",
      "M_shifted[1:] = M_cum[:-1]", "g_rescaled = np.empty_like(g_flat, dtype=M_shifted.dtype)",
      "g_rescaled[order] = M_shifted", "return g_rescaled.reshape(g.shape)"] := by decide

/-- C20: the step sequence of `extract_percentile_contour` -/
theorem percentile_steps_table :
    percentileSteps = ["flx, grid = _maybe_slice_level(flx, grid, level)", "X, Y, _ = grid",
      "dx = np.abs(X[0, 1] - X[0, 0]) if X.ndim == 2 else np.abs(X[1] - X[0])",
      "dy = np.abs(Y[1, 0] - Y[0, 0]) if Y.ndim == 2 else np.abs(Y[1] - Y[0])", "cell_area = dx * dy",
      "flat = flx.ravel()", "idx = np.argsort(flat)[::-1]", "sorted_vals = flat[idx]",
      "cumsum = np.cumsum(sorted_vals) * cell_area", "total = cumsum[-1]", "target = pct * total",
      "k = np.searchsorted(cumsum, target)", "level = sorted_vals[min(k, len(sorted_vals) - 1)]",
      "area = (k + 1) * cell_area", "return (float(level), float(area))"] := by decide

/-- C15: the cache configuration read off the code hashes every result-determining solver argument,
keys both call sites on the resolved halo, writes atomically and guards the load -/
theorem cache_cfg_table :
    (∀ f ∈ BLDFM.Fld.determining, f ∈ cacheCfg.keyFields) ∧ cacheCfg.haloResolvedAtGet = true ∧
    cacheCfg.haloResolvedAtPut = true ∧ cacheCfg.atomicWrite = true ∧ cacheCfg.guardedLoad = true := by decide

end BLDFM.Bridge
