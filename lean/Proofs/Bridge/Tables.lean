/-
  Bridge for the static extracts (tables regenerated from the AST on every run).
-/
import BLDFM.Generated.Tables
import BLDFM.Cache
import BLDFM.CacheProto
import BLDFM.Dtype

namespace BLDFM.Bridge

open BLDFM.Generated.Tables

/-- C16: `n_timesteps` inspects all four list-capable fields; `validate` also `z0` and `timestamps` -/
theorem met_fields_table :
    metFieldsNTimesteps = ["mol", "ustar", "wind_dir", "wind_speed"] ∧
    metFieldsValidate = ["mol", "timestamps", "ustar", "wind_dir", "wind_speed", "z0"] := by decide

/-- C10: both sweeps (4 store sites) write a requested level at its own position -/
theorem level_store_table : levelStorePattern = ["by-position"] ∧ levelStoreSites = 4 := by decide

/-- C20: the step sequence of `get_source_area` is the modelled one: flatten, argsort descending,
gather, cumulative sum, shift by one (exclusive prefix sum), scatter back through the same order into
an array of the SUMS' dtype, reshape -/
theorem source_area_steps_table :
    sourceAreaSteps = ["f_flat = f.ravel()", "g_flat = g.ravel()", "order = np.argsort(g_flat)[::-1]",
      "f_sorted = f_flat[order]", "M_cum = np.cumsum(f_sorted)", "M_shifted = np.zeros_like(M_cum)",
      "M_shifted[1:] = M_cum[:-1]", "g_rescaled = np.empty_like(g_flat, dtype=M_shifted.dtype)",
      "g_rescaled[order] = M_shifted", "return g_rescaled.reshape(g.shape)"] := by decide

/-- C20: the step sequence of `extract_percentile_contour` -/
theorem percentile_steps_table :
    percentileSteps = ["flx, grid = _maybe_slice_level(flx, grid, level)", "X, Y, _ = grid",
      "dx = np.abs(X[0, 1] - X[0, 0]) if X.ndim == 2 else np.abs(X[1] - X[0])",
      "dy = np.abs(Y[1, 0] - Y[0, 0]) if Y.ndim == 2 else np.abs(Y[1] - Y[0])", "cell_area = dx * dy",
      "flat = flx.ravel()", "idx = np.argsort(flat)[::-1]", "sorted_vals = flat[idx]",
      "cumsum = np.cumsum(sorted_vals) * cell_area", "total = cumsum[-1]", "target = pct * total",
      "k = np.searchsorted(cumsum, target)", "level = sorted_vals[min(k, len(sorted_vals) - 1)]",
      "area = (k + 1) * cell_area", "return (float(level), float(area))"] := by decide

/-- C15: the cache configuration read off the code hashes every result-determining solver argument,
keys both call sites on the resolved halo, writes atomically and guards the load -/
theorem cache_cfg_table :
    (∀ f ∈ BLDFM.Fld.determining, f ∈ cacheCfg.keyFields) ∧ cacheCfg.haloResolvedAtGet = true ∧
    cacheCfg.haloResolvedAtPut = true ∧ cacheCfg.atomicWrite = true ∧ cacheCfg.guardedLoad = true := by decide

/-- C15 (concurrency): the write protocol read off the code is the one `Proofs/C15b.lean` proves safe under every
interleaving: temporary file named after key AND pid, renamed onto the entry, nothing removed by the constructor /
`get`, guarded load -/
theorem proto_cfg_table :
    protoCfg = { atomicWrite := true, tempPerProcess := true, initRemovesTemps := false, guardedLoad := true } := by decide

/-- C19 dtype clause: every stability helper allocates a FLOAT result (`np.zeros_like(zm, dtype=float)`), so that
`Proofs/C19c.lean` (`helpers_dtype_free`) applies: integer-typed heights / lengths give the same values as floats -/
theorem km_alloc_table :
    kmAlloc = [("_phiM", .float), ("_phiC", .float), ("_psiM", .float), ("_nParam", .float)] := by decide

/-- C20 dtype clause: the arrays `get_source_area` allocates take their type from the cumulative sums of `f`, never
from the base field `g` -/
theorem source_area_alloc_table : sourceAreaAlloc = [("M_shifted", .float), ("g_rescaled", .float)] := by decide

/-- C19: `estimateZ0` — raw roughness length, outlier removal, and the 1-degree bins with the wrapped ±half-window
median (wrap thresholds 90 / 270, inclusive lower and exclusive upper edge), as modelled by `z0Wrap` / `z0InWindow` -/
theorem estimateZ0_steps_table :
    estimateZ0Steps = ["k = von_karman", "n_obs = len(zm)", "if n_obs != len(ws) or n_obs != len(wd) or n_obs != len(ustar) or (n_obs != len(mo_len)):", "raise RuntimeError('Input parameters must be of the same length!')", "psi_m = _psiM(zm, mo_len)", "z0 = zm * np.exp(psi_m - k * ws / ustar)", "z0[z0 > 1000] = np.nan", "if half_wd_win < 1:", "return z0", "z0med = np.zeros_like(z0) + np.nan", "for kk in range(0, 360):", "wd_wrapped = wd.copy()", "if kk < 90:", "wd_wrapped[wd > 270] = wd[wd > 270] - 360", "elif kk > 270:", "wd_wrapped[wd < 90] = wd[wd < 90] + 360", "idx1 = np.logical_and(wd >= kk, wd < kk + 1)", "idx2 = np.logical_and(wd_wrapped >= kk - half_wd_win, wd_wrapped < kk + 1 + half_wd_win)", "z0med[idx1] = np.nanmedian(z0[idx2])", "return z0med"] := rfl

/-- C08/C17: tower coordinates are converted whenever a reference origin is configured (`is not None` — an
origin on the equator or the prime meridian is an origin), with (lat, lon, ref_lat, ref_lon) in this order -/
theorem tower_local_xy_table :
    towerLocalXY = ["self.domain.ref_lat is not None and self.domain.ref_lon is not None",
      "tower.compute_local_xy(self.domain.ref_lat, self.domain.ref_lon)",
      "self.x, self.y = latlon_to_xy(self.lat, self.lon, ref_lat, ref_lon)"] := rfl

/-- C12: the process-global mutable state reachable from a solve is exactly the modelled one
(config.NUM_THREADS, the FFT-manager singleton, pyfftw's thread setting, numba's thread count, the
compiled-kernel table); a new module-level memo or a mutable default argument changes this table -/
theorem global_state_table :
    globalState = ["config.py:MAX_WORKERS", "config.py:NUM_THREADS", "config.py:OUTPUT_DIR", "config.py:USE_CACHE",
      "fft_manager.py:_fft_manager", "fft_manager.py:global _fft_manager", "fft_manager.py:writes pyfftw.config.NUM_THREADS",
      "solver.py:calls set_num_threads", "utils.py:parallelize._compiled closure cell"] := rfl

/-! C13: the keyword → expression tables of `run_bldfm_single` (local names inlined by substitution),
the level-selection chain, the returned dictionary and `load_config` are the documented ones -/

theorem call_table_single_assign_else_config_domain_output_levels_else_config_domain_full_output :
    (single_assign_else_config_domain_output_levels_else_config_domain_full_output : List (String × String)) = [("levels", "config.domain.nz")] := rfl

theorem call_table_single_assign_else_config_domain_output_levels_if_config_domain_full_output :
    (single_assign_else_config_domain_output_levels_if_config_domain_full_output : List (String × String)) = [("levels", "list(range(config.domain.nz + 1))")] := rfl

theorem call_table_single_assign_if_config_domain_output_levels :
    (single_assign_if_config_domain_output_levels : List (String × String)) = [("levels", "config.domain.output_levels")] := rfl

theorem call_table_single_assign_if_surface_flux_is_None :
    (single_assign_if_surface_flux_is_None : List (String × String)) = [("nxy", "(config.domain.nx, config.domain.ny)"), ("domain", "(config.domain.xmax, config.domain.ymax)")] := rfl

theorem call_table_single_ideal_source_if_surface_flux_is_None :
    (single_ideal_source_if_surface_flux_is_None : List (String × String)) = [("0", "nxy"), ("1", "domain"), ("src_loc", "config.solver.src_loc"), ("shape", "config.solver.surface_flux_shape")] := rfl

theorem call_table_single_return :
    (single_return : List (String × String)) = [("grid", "grid"), ("conc", "conc"), ("flx", "flx"), ("tower_name", "tower.name"), ("tower_xy", "(tower.x, tower.y)"), ("timestamp", "config.met.get_step(met_index)['timestamp']"), ("params", "config.met.get_step(met_index)")] := rfl

theorem call_table_single_steady_state_transport_solver :
    (single_steady_state_transport_solver : List (String × String)) = [("srf_flx", "surface_flux"), ("z", "z"), ("profiles", "profiles"), ("domain", "(config.domain.xmax, config.domain.ymax)"), ("levels", "levels"), ("modes", "config.domain.modes"), ("meas_pt", "(tower.x, tower.y)"), ("footprint", "config.solver.footprint"), ("analytic", "config.solver.analytic"), ("halo", "config.domain.halo"), ("precision", "config.solver.precision"), ("cache", "cache")] := rfl

theorem call_table_single_vertical_profiles_else_config_met_get_step_met_index__get__z0___is_not_None :
    (single_vertical_profiles_else_config_met_get_step_met_index__get__z0___is_not_None : List (String × String)) = [("n", "config.domain.nz"), ("meas_height", "tower.z_m"), ("wind", "(compute_wind_fields(config.met.get_step(met_index)['wind_speed'], config.met.get_step(met_index)['wind_dir'])[0], compute_wind_fields(config.met.get_step(met_index)['wind_speed'], config.met.get_step(met_index)['wind_dir'])[1])"), ("ustar", "config.met.get_step(met_index)['ustar']"), ("mol", "config.met.get_step(met_index)['mol']"), ("closure", "config.solver.closure")] := rfl

theorem call_table_single_vertical_profiles_if_config_met_get_step_met_index__get__z0___is_not_None :
    (single_vertical_profiles_if_config_met_get_step_met_index__get__z0___is_not_None : List (String × String)) = [("n", "config.domain.nz"), ("meas_height", "tower.z_m"), ("wind", "(compute_wind_fields(config.met.get_step(met_index)['wind_speed'], config.met.get_step(met_index)['wind_dir'])[0], compute_wind_fields(config.met.get_step(met_index)['wind_speed'], config.met.get_step(met_index)['wind_dir'])[1])"), ("z0", "config.met.get_step(met_index).get('z0')"), ("mol", "config.met.get_step(met_index)['mol']"), ("closure", "config.solver.closure")] := rfl

theorem call_table_loadConfigBody :
    (loadConfigBody : List String) = ["path = Path(path)", "if not path.exists():     raise FileNotFoundError(f'Config file not found: {path}')", "with open(path) as f:     raw = yaml.safe_load(f)", "return parse_config_dict(raw)"] := rfl

/-! C14: the statement structure of the serial / parallel drivers and of the pool workers (position-based
regrouping, `pool.map` in submission order, the workers' reset sequence); C11/C06: the solver's array plumbing -/

theorem table_driver_run_bldfm_timeseries :
    (driver_run_bldfm_timeseries : List String) = ["n = config.met.n_timesteps", "cache = _make_cache(config)", "results = []", "for i in range(n):", "  result = run_bldfm_single(config, tower, met_index=i, surface_flux=surface_flux, cache=cache)", "  results.append(result)", "return results"] := rfl

theorem table_driver_run_bldfm_multitower :
    (driver_run_bldfm_multitower : List String) = ["results = {}", "for tower in config.towers:", "  results[tower.name] = run_bldfm_timeseries(config, tower, surface_flux=surface_flux)", "return results"] := rfl

theorem table_driver_worker_single :
    (driver_worker_single : List String) = ["config, tower, met_index = args", "os.environ['NUMBA_NUM_THREADS'] = '1'", "from bldfm import config as cfg", "cfg.NUM_THREADS = 1", "from .fft_manager import reset_fft_manager", "reset_fft_manager()", "return run_bldfm_single(config, tower, met_index=met_index)"] := rfl

theorem table_driver_worker_timeseries :
    (driver_worker_timeseries : List String) = ["config, tower = args", "os.environ['NUMBA_NUM_THREADS'] = '1'", "from bldfm import config as cfg", "cfg.NUM_THREADS = 1", "from .fft_manager import reset_fft_manager", "reset_fft_manager()", "return (tower.name, run_bldfm_timeseries(config, tower))"] := rfl

theorem table_driver_run_bldfm_parallel :
    (driver_run_bldfm_parallel : List String) = ["if surface_flux is not None:", "if max_workers is None:", "  max_workers = config.parallel.max_workers", "n_towers = len(config.towers)", "n_time = config.met.n_timesteps", "if parallel_over == 'towers':", "  tasks = [(config, tower) for tower in config.towers]", "  with ProcessPoolExecutor(max_workers=max_workers) as pool:", "    futures = pool.map(_worker_timeseries, tasks)", "  results = {name: res for name, res in futures}", "else:", "  if parallel_over == 'time':", "    results = {}", "    for tower in config.towers:", "      tasks = [(config, tower, i) for i in range(n_time)]", "      with ProcessPoolExecutor(max_workers=max_workers) as pool:", "        step_results = list(pool.map(_worker_single, tasks))", "      results[tower.name] = step_results", "  else:", "    if parallel_over == 'both':", "      tasks = []", "      for tower in config.towers:", "        for i in range(n_time):", "          tasks.append((config, tower, i))", "      with ProcessPoolExecutor(max_workers=max_workers) as pool:", "        flat_results = list(pool.map(_worker_single, tasks))", "      results = {}", "      idx = 0", "      for tower in config.towers:", "        results[tower.name] = flat_results[idx:idx + n_time]", "        idx += n_time", "    else:", "      raise ValueError(f'Unknown parallel_over={parallel_over!r}. Choose 'towers', 'time', or 'both'.')", "return results"] := rfl

theorem table_driver_make_cache :
    (driver_make_cache : List String) = ["if config.parallel.use_cache and config.solver.footprint:", "  from .cache import GreensFunctionCache", "  return GreensFunctionCache()", "return None"] := rfl

theorem table_solverPlumbing :
    (solverPlumbing : List (String × String)) = [("(Lx, Ly)", "np.meshgrid(lx, ly)"), ("(Z, Y, X)", "np.meshgrid(z[levels], y, x, indexing='ij')"), ("<side-effect call>", "cache.put(z, profiles, domain, modes, meas_pt, halo_used, precision, *result, extra=cache_extra)"), ("<side-effect call>", "get_fft_manager(num_threads=1)"), ("<side-effect call>", "get_fft_manager(num_threads=config.NUM_THREADS)"), ("<side-effect call>", "set_num_threads(config.NUM_THREADS)"), ("conc", "p[:, py:nye - py, px:nxe - px]"), ("fftp", "ifftshift(fftp, axes=(1, 2))"), ("fftp", "np.pad(tfftp, pad_width, mode='constant', constant_values=0.0)"), ("fftq", "ifftshift(fftq, axes=(1, 2))"), ("fftq", "np.pad(tfftq, pad_width, mode='constant', constant_values=0.0)"), ("fftq0", "fft2(q0, norm='forward')"), ("fftq0", "fftshift(fftq0)"), ("flx", "q[:, py:nye - py, px:nxe - px]"), ("grid", "(np.squeeze(X), np.squeeze(Y), np.squeeze(Z))"), ("msk[0, 0]", "False"), ("p", "fft2(fftp, norm='backward').real"), ("p", "ifft2(fftp, norm='forward').real"), ("pad_width", "((0, 0), (dly, nye - nly - dly), (dlx, nxe - nlx - dlx))"), ("q", "fft2(fftq, norm='backward').real"), ("q", "ifft2(fftq, norm='forward').real"), ("q0", "np.pad(q0, ((py, py), (px, px)), mode='constant', constant_values=0.0)"), ("result", "(grid, np.squeeze(conc), np.squeeze(flx))"), ("tfftp", "fftshift(tfftp, axes=(1, 2))"), ("tfftp[0, 0, 0]", "p000"), ("tfftp[0, msk]", "alpha"), ("tfftp[0, msk]", "tfftq0[msk] * Kzinv / eigval"), ("tfftp[:, 0, 0]", "p000 - tfftq0[0, 0] * Kzinv * h[:, 0]"), ("tfftp[:, msk]", "alpha * tfftpm1 + tfftpm2"), ("tfftp[:, msk]", "tfftq[:, msk] * Kzinv / eigval"), ("tfftp[lvl, 0, 0]", "tfftp00"), ("tfftp[lvl, 0, 0]", "tfftp00"), ("tfftq", "fftshift(tfftq, axes=(1, 2))"), ("tfftq0", "fftq0[dly:dly + nly, dlx:dlx + nlx]"), ("tfftq0", "ifftshift(tfftq0)"), ("tfftq0", "np.ones((nly, nlx), dtype=np.complex128) / nxe / nye"), ("tfftq[:, 0, 0]", "tfftq0[0, 0]"), ("tfftq[:, msk]", "alpha * tfftqm1 + tfftqm2"), ("tfftq[:, msk]", "tfftq0[msk] * np.exp(-eigval * h)"), ("x", "np.linspace(0, xmx, nx, endpoint=False)"), ("y", "np.linspace(0, ymx, ny, endpoint=False)")] := rfl

/-- C15: the two cache call sites of the solver pass the solver's own arguments (and the resolved halo, and the tuple of
the remaining result-determining arguments) in the order `_compute_key` hashes them -/
theorem cache_call_sites_table :
    cacheCallSites = ["cache_extra = (levels, np.shape(srf_flx), analytic, srf_bg_conc)", "halo_used = max(domain) if halo is None else halo", "cache.get(z, profiles, domain, modes, meas_pt, halo_used, precision, extra=cache_extra)", "cache.put(z, profiles, domain, modes, meas_pt, halo_used, precision, *result, extra=cache_extra)"] := rfl

end BLDFM.Bridge
