/-
  Bridge for the static extracts (tables regenerated from the AST on every run).
-/
import BLDFM.Generated.Tables

namespace BLDFM.Bridge

open BLDFM.Generated.Tables

/-- C16: `n_timesteps` inspects all four list-capable fields; `validate` also `z0` and `timestamps` -/
theorem met_fields_table :
    metFieldsNTimesteps = ["mol", "ustar", "wind_dir", "wind_speed"] ∧
    metFieldsValidate = ["mol", "timestamps", "ustar", "wind_dir", "wind_speed", "z0"] := by decide

/-- C10: both sweeps (4 store sites) write a requested level at its own position -/
theorem level_store_table : levelStorePattern = ["by-position"] ∧ levelStoreSites = 4 := by decide

end BLDFM.Bridge
