/-
  Bridge for the whole-function statement tables (Generated/Bodies.lean, regenerated from the AST on every run):
  the canonical statement text of each function is the snapshot the hand-written model was validated against.
  Pinned by tools/pin_bodies.py; a textual change of a function breaks exactly its own theorem.
-/
import BLDFM.Generated.Bodies

namespace BLDFM.Bridge

open BLDFM.Generated.Bodies

theorem body_io_save :
    (io_save : List String) =
    ["def save_footprints_to_netcdf(results, config, filepath)",
     "filepath = Path(filepath)",
     "filepath.parent.mkdir(parents=True, exist_ok=True)",
     "tower_names = list(results.keys())",
     "n_towers = len(tower_names)",
     "first_result = results[tower_names[0]][0]",
     "X, Y, Z_coord = first_result['grid']",
     "is_3d = first_result['flx'].ndim == 3",
     "n_time = len(results[tower_names[0]])",
     "if is_3d:",
     "  nz_out, ny, nx = first_result['flx'].shape",
     "else:",
     "  ny, nx = first_result['flx'].shape",
     "if is_3d:",
     "  x = X[0, 0, :]",
     "  y = Y[0, :, 0]",
     "  z = Z_coord[:, 0, 0]",
     "else:",
     "  x = X[0, :] if X.ndim == 2 else X",
     "  y = Y[:, 0] if Y.ndim == 2 else Y",
     "timestamps = []",
     "for r in results[tower_names[0]]:",
     "  ts = r['timestamp']",
     "  timestamps.append(str(ts))",
     "if is_3d:",
     "  flx_data = np.zeros((n_time, n_towers, nz_out, ny, nx))",
     "  conc_data = np.zeros((n_time, n_towers, nz_out, ny, nx))",
     "  dims = ['time', 'tower', 'z', 'y', 'x']",
     "else:",
     "  flx_data = np.zeros((n_time, n_towers, ny, nx))",
     "  conc_data = np.zeros((n_time, n_towers, ny, nx))",
     "  dims = ['time', 'tower', 'y', 'x']",
     "ustar_data = np.zeros((n_time,))",
     "mol_data = np.zeros((n_time,))",
     "wind_speed_data = np.zeros((n_time,))",
     "wind_dir_data = np.zeros((n_time,))",
     "for ti, tower_name in enumerate(tower_names):",
     "  for t, r in enumerate(results[tower_name]):",
     "    flx_data[t, ti] = r['flx']",
     "    conc_data[t, ti] = r['conc']",
     "    if ti == 0:",
     "      ustar_data[t] = r['params']['ustar']",
     "      mol_data[t] = r['params']['mol']",
     "      wind_speed_data[t] = r['params']['wind_speed']",
     "      wind_dir_data[t] = r['params']['wind_dir']",
     "tower_lats = [t.lat for t in config.towers]",
     "tower_lons = [t.lon for t in config.towers]",
     "tower_z = [t.z_m for t in config.towers]",
     "coords = {'x': ('x', x, {'long_name': 'easting', 'units': 'm'}), 'y': ('y', y, {'long_name': 'northing', 'units': 'm'}), 'time': ('time', timestamps), 'tower': ('tower', tower_names)}",
     "if is_3d:",
     "  coords['z'] = ('z', z, {'long_name': 'height', 'units': 'm'})",
     "ds = xr.Dataset({'footprint': (dims, flx_data, {'long_name': 'flux footprint', 'units': 'm^-2'}), 'concentration': (dims, conc_data, {'long_name': 'concentration field', 'units': 'scalar_unit'}), 'ustar': (['time'], ustar_data, {'long_name': 'friction velocity', 'units': 'm s^-1'}), 'mol': (['time'], mol_data, {'long_name': 'Monin-Obukhov length', 'units': 'm'}), 'wind_speed': (['time'], wind_speed_data, {'long_name': 'wind speed', 'units': 'm s^-1'}), 'wind_dir': (['time'], wind_dir_data, {'long_name': 'wind direction', 'units': 'degrees'}), 'tower_lat': (['tower'], tower_lats, {'long_name': 'tower latitude', 'units': 'degrees_north'}), 'tower_lon': (['tower'], tower_lons, {'long_name': 'tower longitude', 'units': 'degrees_east'}), 'tower_z': (['tower'], tower_z, {'long_name': 'measurement height', 'units': 'm'})}, coords=coords, attrs={'Conventions': 'CF-1.8', 'title': 'BLDFM footprint output', 'source': 'BLDFM v1.0', 'closure': config.solver.closure, 'domain_xmax': config.domain.xmax, 'domain_ymax': config.domain.ymax})",
     "encoding = {'footprint': {'zlib': True, 'complevel': 4}, 'concentration': {'zlib': True, 'complevel': 4}}",
     "ds.to_netcdf(filepath, encoding=encoding)"] := rfl

theorem body_io_load :
    (io_load : List String) =
    ["def load_footprints_from_netcdf(filepath)",
     "filepath = Path(filepath)",
     "if not filepath.exists():",
     "  raise FileNotFoundError(f'NetCDF file not found: {filepath}')",
     "ds = xr.open_dataset(filepath)",
     "return ds"] := rfl

theorem body_met_n_timesteps :
    (met_n_timesteps : List String) =
    ["@property",
     "def n_timesteps(self)",
     "for val in (self.ustar, self.mol, self.wind_speed, self.wind_dir):",
     "  if isinstance(val, list):",
     "    return len(val)",
     "return 1"] := rfl

theorem body_met_get_step :
    (met_get_step : List String) =
    ["def get_step(self, i: int)",
     "def _get(val, idx):",
     "  if val is None:",
     "    return None",
     "  return val[idx] if isinstance(val, list) else val",
     "result = {'ustar': _get(self.ustar, i), 'mol': _get(self.mol, i), 'wind_speed': _get(self.wind_speed, i), 'wind_dir': _get(self.wind_dir, i)}",
     "if self.z0 is not None:",
     "  result['z0'] = self.z0",
     "if self.timestamps is not None:",
     "  result['timestamp'] = self.timestamps[i]",
     "else:",
     "  result['timestamp'] = i",
     "return result"] := rfl

theorem body_met_validate :
    (met_validate : List String) =
    ["def validate(self)",
     "if self.ustar is None and self.z0 is None:",
     "  raise ValueError('MetConfig requires at least one of 'ustar' or 'z0'')",
     "list_fields = {}",
     "for name in ('ustar', 'mol', 'wind_speed', 'wind_dir'):",
     "  val = getattr(self, name)",
     "  if isinstance(val, list):",
     "    list_fields[name] = len(val)",
     "lengths = set(list_fields.values())",
     "if len(lengths) > 1:",
     "  raise ValueError(f'Met timeseries arrays must all have the same length. Got: {list_fields}')",
     "n = lengths.pop() if lengths else 1",
     "if self.timestamps is not None and len(self.timestamps) != n:",
     "  raise ValueError(f'timestamps length ({len(self.timestamps)}) does not match met array length ({n})')"] := rfl

theorem body_config_post_init :
    (config_post_init : List String) =
    ["def __post_init__(self)",
     "if self.domain.ref_lat is not None and self.domain.ref_lon is not None:",
     "  for tower in self.towers:",
     "    tower.compute_local_xy(self.domain.ref_lat, self.domain.ref_lon)",
     "self.met.validate()"] := rfl

theorem body_tower_compute_local_xy :
    (tower_compute_local_xy : List String) =
    ["def compute_local_xy(self, ref_lat: float, ref_lon: float)",
     "self.x, self.y = latlon_to_xy(self.lat, self.lon, ref_lat, ref_lon)"] := rfl

theorem body_parse_config_dict :
    (parse_config_dict : List String) =
    ["def parse_config_dict(raw: dict)",
     "if 'domain' not in raw:",
     "  raise ValueError('Config must include 'domain' section')",
     "if 'towers' not in raw:",
     "  raise ValueError('Config must include 'towers' section')",
     "if 'met' not in raw:",
     "  raise ValueError('Config must include 'met' section')",
     "domain = _parse_domain(raw['domain'])",
     "towers = [_parse_tower(t) for t in raw['towers']]",
     "met = _parse_met(raw['met'])",
     "solver = _parse_solver(raw.get('solver'))",
     "output = _parse_output(raw.get('output'))",
     "parallel = _parse_parallel(raw.get('parallel'))",
     "return BLDFMConfig(domain=domain, towers=towers, met=met, solver=solver, output=output, parallel=parallel)"] := rfl

theorem body_cfg_parse_tower :
    (cfg_parse_tower : List String) =
    ["def _parse_tower(d: dict)",
     "return TowerConfig(name=d['name'], lat=d['lat'], lon=d['lon'], z_m=d['z_m'])"] := rfl

theorem body_cfg_parse_domain :
    (cfg_parse_domain : List String) =
    ["def _parse_domain(d: dict)",
     "modes = d.get('modes', [512, 512])",
     "output_levels = d.get('output_levels')",
     "return DomainConfig(nx=d['nx'], ny=d['ny'], xmax=float(d['xmax']), ymax=float(d['ymax']), nz=d['nz'], modes=tuple(modes), halo=d.get('halo'), ref_lat=d.get('ref_lat'), ref_lon=d.get('ref_lon'), output_levels=output_levels, full_output=d.get('full_output', False))"] := rfl

theorem body_cfg_parse_met :
    (cfg_parse_met : List String) =
    ["def _parse_met(d: dict)",
     "return MetConfig(ustar=d.get('ustar'), mol=d.get('mol', 1000000000.0), wind_speed=d.get('wind_speed', 5.0), wind_dir=d.get('wind_dir', 270.0), z0=d.get('z0'), timestamps=d.get('timestamps'))"] := rfl

theorem body_cfg_parse_solver :
    (cfg_parse_solver : List String) =
    ["def _parse_solver(d: dict)",
     "if d is None:",
     "  return SolverConfig()",
     "src_loc = d.get('src_loc')",
     "if src_loc is not None:",
     "  src_loc = tuple(src_loc)",
     "return SolverConfig(closure=d.get('closure', 'MOST'), precision=d.get('precision', 'single'), footprint=d.get('footprint', False), surface_flux_shape=d.get('surface_flux_shape', 'diamond'), analytic=d.get('analytic', False), src_loc=src_loc)"] := rfl

theorem body_cfg_parse_parallel :
    (cfg_parse_parallel : List String) =
    ["def _parse_parallel(d: dict)",
     "if d is None:",
     "  return ParallelConfig()",
     "return ParallelConfig(num_threads=d.get('num_threads', 1), max_workers=d.get('max_workers', 1), use_cache=d.get('use_cache', False))"] := rfl

theorem body_cfg_load_config :
    (cfg_load_config : List String) =
    ["def load_config(path: Union[str, Path])",
     "path = Path(path)",
     "if not path.exists():",
     "  raise FileNotFoundError(f'Config file not found: {path}')",
     "with open(path) as f:",
     "  raw = yaml.safe_load(f)",
     "return parse_config_dict(raw)"] := rfl

theorem body_cli_cmd_run :
    (cli_cmd_run : List String) =
    ["def cmd_run(args)",
     "initialize()",
     "logger = get_logger('cli')",
     "config = load_config(args.config)",
     "if args.dry_run:",
     "  for tower in config.towers:",
     "  return",
     "from . import config as runtime_config",
     "runtime_config.NUM_THREADS = config.parallel.num_threads",
     "runtime_config.MAX_WORKERS = config.parallel.max_workers",
     "runtime_config.USE_CACHE = config.parallel.use_cache",
     "results = []",
     "for tower in config.towers:",
     "  for t in range(config.met.n_timesteps):",
     "    result = run_bldfm_single(config, tower, met_index=t)",
     "    results.append(result)",
     "if args.plot:",
     "  _save_plots(results, logger)"] := rfl

theorem body_fft_get_manager :
    (fft_get_manager : List String) =
    ["def get_fft_manager(num_threads=1, cache_keepalive=30)",
     "global _fft_manager",
     "if _fft_manager is not None and _fft_manager.num_threads != num_threads:",
     "  _fft_manager = None",
     "if _fft_manager is None:",
     "  _fft_manager = FFTManager(num_threads=num_threads, cache_keepalive=cache_keepalive)",
     "return _fft_manager"] := rfl

theorem body_fft_reset_manager :
    (fft_reset_manager : List String) =
    ["def reset_fft_manager()",
     "global _fft_manager",
     "_fft_manager = None"] := rfl

theorem body_fft_fft2 :
    (fft_fft2 : List String) =
    ["def fft2(input_data, norm='backward')",
     "manager = get_fft_manager()",
     "return manager.fft2(input_data, norm)"] := rfl

theorem body_fft_ifft2 :
    (fft_ifft2 : List String) =
    ["def ifft2(input_data, norm='backward')",
     "manager = get_fft_manager()",
     "return manager.ifft2(input_data, norm)"] := rfl

theorem body_fftmgr_init :
    (fftmgr_init : List String) =
    ["def __init__(self, wisdom_file='fftw_wisdom.pkl', num_threads=1, cache_keepalive=30)",
     "self.wisdom_file = Path(wisdom_file)",
     "self.num_threads = num_threads",
     "pyfftw.config.NUM_THREADS = num_threads",
     "pyfftw.interfaces.cache.enable()",
     "pyfftw.interfaces.cache.set_keepalive_time(cache_keepalive)",
     "self._load_wisdom()",
     "atexit.register(self._cleanup)"] := rfl

theorem body_fftmgr_fft2 :
    (fftmgr_fft2 : List String) =
    ["def fft2(self, input_data, norm='backward')",
     "return pyfftw_fft.fft2(input_data, norm=norm)"] := rfl

theorem body_fftmgr_ifft2 :
    (fftmgr_ifft2 : List String) =
    ["def ifft2(self, input_data, norm='backward')",
     "return pyfftw_fft.ifft2(input_data, norm=norm)"] := rfl

theorem body_utils_parallelize :
    (utils_parallelize : List String) =
    ["def parallelize(func)",
     "_compiled = {}",
     "def wrapper(*args, **kwargs):",
     "  use_parallel = config.NUM_THREADS > 1",
     "  if use_parallel not in _compiled:",
     "    _compiled[use_parallel] = numba.jit(nopython=True, parallel=use_parallel, cache=True)(func)",
     "  return _compiled[use_parallel](*args, **kwargs)",
     "return wrapper"] := rfl

theorem body_utils_ideal_source :
    (utils_ideal_source : List String) =
    ["def ideal_source(nxy, domain, src_loc=None, shape='diamond')",
     "nx, ny = nxy",
     "xmx, ymx = domain",
     "dx = xmx / nx",
     "dy = ymx / ny",
     "if src_loc is None:",
     "  src_loc = (xmx / 2, ymx / 2)",
     "xs, ys = src_loc",
     "x = np.linspace(0.0, xmx, nx)",
     "y = np.linspace(0.0, ymx, ny)",
     "X, Y = np.meshgrid(x, y)",
     "q0 = np.zeros([ny, nx])",
     "if shape == 'diamond':",
     "  R0 = xmx / 12",
     "  R = np.abs(X - xs) + np.abs(Y - ys)",
     "  q0 = np.where(R < R0, 1.0, 0.0)",
     "if shape == 'circle':",
     "  R0 = xmx / 12",
     "  R = np.sqrt((X - xs) ** 2 + (Y - ys) ** 2)",
     "  q0 = np.where(R < R0, 1.0, 0.0)",
     "if shape == 'point':",
     "  sig = 4.0 * dx",
     "  Rsq = (X - xs) ** 2 + (Y - ys) ** 2",
     "  q0 = np.exp(-Rsq / 2.0 / sig ** 2) / sig / np.sqrt(2.0 * np.pi)",
     "return q0"] := rfl

theorem body_utils_point_measurement :
    (utils_point_measurement : List String) =
    ["def point_measurement(f, g)",
     "return np.sum(f * g)"] := rfl

theorem body_utils_compute_wind_fields :
    (utils_compute_wind_fields : List String) =
    ["def compute_wind_fields(u_rot, wind_dir)",
     "wind_dir = np.deg2rad(wind_dir)",
     "u = -u_rot * np.sin(wind_dir)",
     "v = -u_rot * np.cos(wind_dir)",
     "return (u, v)"] := rfl

theorem body_cache_init :
    (cache_init : List String) =
    ["def __init__(self, cache_dir='.bldfm_cache')",
     "self.cache_dir = Path(cache_dir)",
     "self.cache_dir.mkdir(parents=True, exist_ok=True)"] := rfl

theorem body_cache_compute_key :
    (cache_compute_key : List String) =
    ["def _compute_key(self, z, profiles, domain, modes, meas_pt, halo, precision, extra=None)",
     "h = hashlib.sha256()",
     "h.update(np.asarray(z).tobytes())",
     "for arr in profiles:",
     "  h.update(np.asarray(arr).tobytes())",
     "h.update(np.asarray(domain).tobytes())",
     "h.update(np.asarray(modes).tobytes())",
     "h.update(np.asarray(meas_pt).tobytes())",
     "h.update(str(halo).encode())",
     "h.update(precision.encode())",
     "if extra is not None:",
     "  levels, shape, analytic, srf_bg_conc = extra",
     "  h.update(np.asarray(levels, dtype=np.int64).tobytes())",
     "  h.update(str(tuple((int(n) for n in shape))).encode())",
     "  h.update(str(bool(analytic)).encode())",
     "  h.update(np.float64(srf_bg_conc).tobytes())",
     "return h.hexdigest()"] := rfl

theorem body_cache_get :
    (cache_get : List String) =
    ["def get(self, z, profiles, domain, modes, meas_pt, halo, precision, extra=None)",
     "key = self._compute_key(z, profiles, domain, modes, meas_pt, halo, precision, extra)",
     "path = self.cache_dir / f'{key}.npz'",
     "if path.exists():",
     "  try:",
     "    with np.load(path) as data:",
     "      grid = (data['X'], data['Y'], data['Z'])",
     "      result = (grid, data['conc'], data['flx'])",
     "  except Exception as e:",
     "    return None",
     "  return result",
     "return None"] := rfl

theorem body_cache_put :
    (cache_put : List String) =
    ["def put(self, z, profiles, domain, modes, meas_pt, halo, precision, grid, conc, flx, extra=None)",
     "key = self._compute_key(z, profiles, domain, modes, meas_pt, halo, precision, extra)",
     "path = self.cache_dir / f'{key}.npz'",
     "tmp = self.cache_dir / f'{key}.{os.getpid()}.tmp.npz'",
     "X, Y, Z = grid",
     "np.savez(tmp, X=X, Y=Y, Z=Z, conc=conc, flx=flx)",
     "os.replace(tmp, path)"] := rfl

theorem body_pbl_vertical_profiles :
    (pbl_vertical_profiles : List String) =
    ["def vertical_profiles(n, meas_height, wind, ustar=None, z0=None, mol=1000000000.0, prsc=1.0, closure='MOST', domain_height=None, stretch=None, z0_min=0.001, z0_max=2.0, tke=None)",
     "zm, (um, vm) = (meas_height, wind)",
     "kap = 0.4",
     "absum = np.sqrt(um ** 2 + vm ** 2)",
     "if closure == 'CONSTANT' or closure == 'MOST' or closure == 'MOSTM':",
     "  if z0 is None:",
     "    z0 = zm * np.exp(-kap * absum / ustar + psi(zm / mol))",
     "  else:",
     "    if ustar is None:",
     "      ustar = absum * kap / (np.log(zm / z0) + psi(zm / mol))",
     "    else:",
     "      raise ValueError(f'Either z0 or ustar must be provided.')",
     "else:",
     "  if closure == 'OAAHOC':",
     "    cl = 0.845",
     "    cm = 0.0856",
     "    ch = 0.204",
     "    if tke is None:",
     "      tke = 1.0",
     "    tke = np.array(tke)[..., np.newaxis]",
     "    absum = np.sqrt(um ** 2 + vm ** 2)",
     "    z0 = zm * np.exp(-cm * cl * absum * np.sqrt(tke) / ustar ** 2)",
     "  else:",
     "    raise ValueError(f'Invalid closure type: {closure}. Supported closures are 'MOST', 'CONSTANT', and 'OAAHOC'.')",
     "if stretch is None:",
     "  h = 2.0 * meas_height",
     "else:",
     "  h = stretch",
     "if domain_height is None:",
     "  zmx = 2.0 * meas_height",
     "else:",
     "  zmx = domain_height",
     "bb = zm / (np.exp(-z0 / h) - np.exp(-zm / h))",
     "aa = bb * np.exp(-z0 / h)",
     "zetamx = aa - bb * np.exp(-zmx / h)",
     "dzeta = zm / n",
     "zeta = np.arange(0.0, np.squeeze(zetamx).item() + dzeta, dzeta)",
     "z = -h * np.log(-(zeta - aa) / bb)",
     "if closure == 'CONSTANT':",
     "  Km = kap * ustar * zm / prsc",
     "  u = um * np.ones(len(z))",
     "  v = vm * np.ones(len(z))",
     "  K = Km * np.ones(len(z))",
     "  Kx = Ky = Kz = K",
     "else:",
     "  if closure == 'MOST':",
     "    absu = ustar / kap * (np.log(z / z0) + psi(z / mol))",
     "    u = um / absum * absu",
     "    v = vm / absum * absu",
     "    K = kap * ustar * z / phi(z / mol) / prsc",
     "    Kx = Ky = Kz = K",
     "  else:",
     "    if closure == 'MOSTM':",
     "      absu = ustar / kap * (np.log(z / z0) + psi(z / mol))",
     "      u = um / absum * absu",
     "      v = vm / absum * absu",
     "      K = kap * ustar * z / phi(z / mol) / prsc",
     "      Kx = K * v ** 2 / (u ** 2 + v ** 2)",
     "      Ky = K * u ** 2 / (u ** 2 + v ** 2)",
     "      Kz = K",
     "    else:",
     "      if closure == 'OAAHOC':",
     "        absu = ustar ** 2 / cm / cl / np.sqrt(tke) * np.log(z / z0)",
     "        u = um / absum * absu",
     "        v = vm / absum * absu",
     "        K = ch * cl * z * np.sqrt(tke)",
     "        Kx = Ky = Kz = K",
     "      else:",
     "        raise ValueError(f'Invalid closure type: {closure}. Supported closures are 'MOST', 'CONSTANT', and 'OAAHOC'.')",
     "return (z, (u, v, Kx, Ky, Kz))"] := rfl

theorem body_km_estimateFootprint :
    (km_estimateFootprint : List String) =
    ["def estimateFootprint(zm, z0, ws, ustar, mo_len, sigma_v, grid_domain, grid_res, mxy, wd=None)",
     "k = von_karman",
     "xmin, xmax, ymin, ymax = tuple(grid_domain)",
     "grid_x, grid_y = np.meshgrid(np.arange(xmin + 0.5 * grid_res, xmax, grid_res), np.arange(ymax - 0.5 * grid_res, ymin, -grid_res))",
     "grid_ffm = np.zeros_like(grid_x)",
     "phi_m = _phiM(np.asarray([zm]), np.asarray([mo_len]))[0]",
     "phi_c = _phiC(np.asarray([zm]), np.asarray([mo_len]))[0]",
     "psi_m = _psiM(np.asarray([zm]), np.asarray([mo_len]))[0]",
     "m = _mParam(np.asarray([zm]), np.asarray([ws]), np.asarray([ustar]), np.asarray([mo_len]))[0]",
     "n = _nParam(np.asarray([zm]), np.asarray([mo_len]))[0]",
     "kappa = k * zm * ustar / (phi_c * zm ** n)",
     "U = ustar * (np.log(zm / z0) + psi_m) / (k * zm ** m)",
     "if U < 0:",
     "  msg = 'U in Eq. (11) of Kormann & Meixner, 2001 is estimated ' + 'negative as {0:.3f}, physically impossible! ' + 'Return empty footprint.'",
     "  msg = msg.format(U)",
     "  msg = msg + '\\n' + 'zm = {0:.3f}, z0 = {1:.3f}, ws = {2:.3f}, ' + 'ustar = {3:.3f}, L = {4:.3f}, sigma_v = {5:.3f}'",
     "  msg = msg.format(zm, z0, ws, ustar, mo_len, sigma_v)",
     "  warnings.warn(msg)",
     "  return (grid_x, grid_y, grid_ffm)",
     "r = 2 + m - n",
     "mu = (1 + m) / r",
     "Xi = U * zm ** r / (r ** 2 * kappa)",
     "gmm = spsp.gamma(mu)",
     "mr = m / r",
     "A = U / (spsp.gamma(1 / r) * sigma_v) * (kappa * r ** 2 / U) ** mr",
     "num = 1 / np.sqrt(2 * np.pi) * Xi ** mu",
     "if wd is None:",
     "  x, y = (grid_x - mxy[0], grid_y - mxy[1])",
     "else:",
     "  x, y = (grid_x - mxy[0], grid_y - mxy[1])",
     "  rho = np.sqrt(x ** 2 + y ** 2)",
     "  theta = np.arctan2(y, x)",
     "  new_theta = theta + np.deg2rad(wd) - np.pi * 0.5",
     "  x = rho * np.cos(new_theta)",
     "  y = rho * np.sin(new_theta)",
     "sflag = x > 0",
     "grid_ffm[sflag] = grid_res ** 2 * num * A * x[sflag] ** (mr - 2 - mu) * np.exp(-Xi / x[sflag] - 0.5 * (gmm * y[sflag] * A * x[sflag] ** (mr - 1)) ** 2)",
     "return (grid_x, grid_y, grid_ffm)"] := rfl

theorem body_plot_maybe_slice_level :
    (plot_maybe_slice_level : List String) =
    ["def _maybe_slice_level(field, grid, level=0)",
     "if field.ndim == 3:",
     "  field = field[level]",
     "  X, Y, Z = grid",
     "  if X.ndim == 3:",
     "    grid = (X[level], Y[level], Z[level])",
     "return (field, grid)"] := rfl

theorem body_geo_xy_to_latlon :
    (geo_xy_to_latlon : List String) =
    ["def xy_to_latlon(x, y, ref_lat, ref_lon)",
     "R = 6371000.0",
     "lats = ref_lat + np.degrees(y / R)",
     "lons = ref_lon + np.degrees(x / (R * np.cos(np.radians(ref_lat))))",
     "return (lats, lons)"] := rfl

theorem body_cfg_latlon_to_xy :
    (cfg_latlon_to_xy : List String) =
    ["def latlon_to_xy(lat, lon, ref_lat, ref_lon)",
     "lat_r = math.radians(lat)",
     "lon_r = math.radians(lon)",
     "ref_lat_r = math.radians(ref_lat)",
     "ref_lon_r = math.radians(ref_lon)",
     "x = _EARTH_RADIUS * (lon_r - ref_lon_r) * math.cos(ref_lat_r)",
     "y = _EARTH_RADIUS * (lat_r - ref_lat_r)",
     "return (x, y)"] := rfl

theorem body_utils_get_source_area :
    (utils_get_source_area : List String) =
    ["def get_source_area(f, g)",
     "f_flat = f.ravel()",
     "g_flat = g.ravel()",
     "order = np.argsort(g_flat)[::-1]",
     "f_sorted = f_flat[order]",
     "M_cum = np.cumsum(f_sorted)",
     "M_shifted = np.zeros_like(M_cum)",
     "M_shifted[1:] = M_cum[:-1]",
     "g_rescaled = np.empty_like(g_flat, dtype=M_shifted.dtype)",
     "g_rescaled[order] = M_shifted",
     "return g_rescaled.reshape(g.shape)"] := rfl

theorem body_km_estimateZ0 :
    (km_estimateZ0 : List String) =
    ["def estimateZ0(zm, ws, wd, ustar, mo_len, half_wd_win=22)",
     "k = von_karman",
     "n_obs = len(zm)",
     "if n_obs != len(ws) or n_obs != len(wd) or n_obs != len(ustar) or (n_obs != len(mo_len)):",
     "  raise RuntimeError('Input parameters must be of the same length!')",
     "psi_m = _psiM(zm, mo_len)",
     "z0 = zm * np.exp(psi_m - k * ws / ustar)",
     "z0[z0 > 1000] = np.nan",
     "if half_wd_win < 1:",
     "  return z0",
     "z0med = np.zeros_like(z0) + np.nan",
     "for kk in range(0, 360):",
     "  wd_wrapped = wd.copy()",
     "  if kk < 90:",
     "    wd_wrapped[wd > 270] = wd[wd > 270] - 360",
     "  else:",
     "    if kk > 270:",
     "      wd_wrapped[wd < 90] = wd[wd < 90] + 360",
     "  idx1 = np.logical_and(wd >= kk, wd < kk + 1)",
     "  idx2 = np.logical_and(wd_wrapped >= kk - half_wd_win, wd_wrapped < kk + 1 + half_wd_win)",
     "  z0med[idx1] = np.nanmedian(z0[idx2])",
     "return z0med"] := rfl

theorem body_iface_run_single :
    (iface_run_single : List String) =
    ["def run_bldfm_single(config: BLDFMConfig, tower: TowerConfig, met_index: int=0, surface_flux: np.ndarray=None, cache=None)",
     "dom = config.domain",
     "sol = config.solver",
     "met_step = config.met.get_step(met_index)",
     "u_wind, v_wind = compute_wind_fields(met_step['wind_speed'], met_step['wind_dir'])",
     "z0_val = met_step.get('z0')",
     "if z0_val is not None:",
     "  z, profiles = vertical_profiles(n=dom.nz, meas_height=tower.z_m, wind=(u_wind, v_wind), z0=z0_val, mol=met_step['mol'], closure=sol.closure)",
     "else:",
     "  z, profiles = vertical_profiles(n=dom.nz, meas_height=tower.z_m, wind=(u_wind, v_wind), ustar=met_step['ustar'], mol=met_step['mol'], closure=sol.closure)",
     "if surface_flux is None:",
     "  nxy = (dom.nx, dom.ny)",
     "  domain = (dom.xmax, dom.ymax)",
     "  surface_flux = ideal_source(nxy, domain, src_loc=sol.src_loc, shape=sol.surface_flux_shape)",
     "if dom.output_levels:",
     "  levels = dom.output_levels",
     "else:",
     "  if dom.full_output:",
     "    levels = list(range(dom.nz + 1))",
     "  else:",
     "    levels = dom.nz",
     "grid, conc, flx = steady_state_transport_solver(srf_flx=surface_flux, z=z, profiles=profiles, domain=(dom.xmax, dom.ymax), levels=levels, modes=dom.modes, meas_pt=(tower.x, tower.y), footprint=sol.footprint, analytic=sol.analytic, halo=dom.halo, precision=sol.precision, cache=cache)",
     "return {'grid': grid, 'conc': conc, 'flx': flx, 'tower_name': tower.name, 'tower_xy': (tower.x, tower.y), 'timestamp': met_step['timestamp'], 'params': met_step}"] := rfl

theorem body_solver_steady_state :
    (solver_steady_state : List String) =
    ["def steady_state_transport_solver(srf_flx, z, profiles, domain, levels, modes=(512, 512), meas_pt=(0.0, 0.0), srf_bg_conc=0.0, footprint=False, analytic=False, halo=None, precision='single', cache=None)",
     "if cache is not None and footprint:",
     "  halo_used = max(domain) if halo is None else halo",
     "  cache_extra = (levels, np.shape(srf_flx), analytic, srf_bg_conc)",
     "  cached = cache.get(z, profiles, domain, modes, meas_pt, halo_used, precision, extra=cache_extra)",
     "  if cached is not None:",
     "    return cached",
     "q0 = srf_flx",
     "p000 = srf_bg_conc",
     "u, v, Kx, Ky, Kz = profiles",
     "xmx, ymx = domain",
     "nlx, nly = modes",
     "xm, ym = meas_pt",
     "if nlx % 2 > 0 or nly % 2 > 0:",
     "  raise ValueError('modes must consist of even numbers.')",
     "ny, nx = q0.shape",
     "nz = len(z)",
     "dx, dy = (xmx / nx, ymx / ny)",
     "dz = np.diff(z)",
     "if np.ndim(levels) == 0:",
     "  levels = np.array([levels])",
     "nlvls = len(levels)",
     "if halo is None:",
     "  halo = max(xmx, ymx)",
     "px = int(halo / dx)",
     "py = int(halo / dy)",
     "q0 = np.pad(q0, ((py, py), (px, px)), mode='constant', constant_values=0.0)",
     "nxe = nx + 2 * px",
     "nye = ny + 2 * py",
     "if nlx > nxe or nly > nye:",
     "  nlx, nly = (nxe, nye)",
     "dlx, dly = ((nxe - nlx) // 2, (nye - nly) // 2)",
     "if footprint:",
     "  tfftq0 = np.ones((nly, nlx), dtype=np.complex128) / nxe / nye",
     "else:",
     "  fftq0 = fft2(q0, norm='forward')",
     "  fftq0 = fftshift(fftq0)",
     "  tfftq0 = fftq0[dly:dly + nly, dlx:dlx + nlx]",
     "  tfftq0 = ifftshift(tfftq0)",
     "ilx = fftfreq(nlx, d=1.0 / nlx)",
     "ily = fftfreq(nly, d=1.0 / nly)",
     "lx = 2.0 * np.pi / dx / nxe * ilx",
     "ly = 2.0 * np.pi / dy / nye * ily",
     "Lx, Ly = np.meshgrid(lx, ly)",
     "msk = np.ones((nly, nlx), dtype=bool)",
     "msk[0, 0] = False",
     "one = np.ones((nly, nlx), dtype=np.complex128)[msk]",
     "zero = np.zeros((nly, nlx), dtype=np.complex128)[msk]",
     "Kzinv = 1.0 / Kz[nz - 1]",
     "KxKzinv = Kx[nz - 1] * Kzinv",
     "KyKzinv = Ky[nz - 1] * Kzinv",
     "eigval = np.sqrt(KxKzinv * Lx[msk] ** 2 + KyKzinv * Ly[msk] ** 2 + 1j * u[nz - 1] * Kzinv * Lx[msk] + 1j * v[nz - 1] * Kzinv * Ly[msk])",
     "if precision == 'single':",
     "  tfftp = np.zeros((nlvls, nly, nlx), dtype=np.complex64)",
     "  tfftq = np.zeros((nlvls, nly, nlx), dtype=np.complex64)",
     "else:",
     "  if precision == 'double':",
     "    tfftp = np.zeros((nlvls, nly, nlx), dtype=np.complex128)",
     "    tfftq = np.zeros((nlvls, nly, nlx), dtype=np.complex128)",
     "  else:",
     "    raise ValueError('precision must be single (default) or double.')",
     "tfftp[0, 0, 0] = p000",
     "tfftq[:, 0, 0] = tfftq0[0, 0]",
     "if analytic:",
     "  h = (z[levels] - z[0])[:, np.newaxis]",
     "  tfftp[0, msk] = tfftq0[msk] * Kzinv / eigval",
     "  tfftp[:, 0, 0] = p000 - tfftq0[0, 0] * Kzinv * h[:, 0]",
     "  tfftq[:, msk] = tfftq0[msk] * np.exp(-eigval * h)",
     "  tfftp[:, msk] = tfftq[:, msk] * Kzinv / eigval",
     "else:",
     "  if config.NUM_THREADS > 1:",
     "    set_num_threads(config.NUM_THREADS)",
     "    get_fft_manager(num_threads=config.NUM_THREADS)",
     "  else:",
     "    get_fft_manager(num_threads=1)",
     "  tfftp1, tfftq1, tfftpm1, tfftqm1 = ivp_solver((one, zero), profiles, z, levels, Lx[msk], Ly[msk])",
     "  tfftp2, tfftq2, tfftpm2, tfftqm2 = ivp_solver((zero, tfftq0[msk]), profiles, z, levels, Lx[msk], Ly[msk])",
     "  alpha = -(tfftq2 - Kz[nz - 1] * eigval * tfftp2) / (tfftq1 - Kz[nz - 1] * eigval * tfftp1)",
     "  tfftp[0, msk] = alpha",
     "  tfftp[:, msk] = alpha * tfftpm1 + tfftpm2",
     "  tfftq[:, msk] = alpha * tfftqm1 + tfftqm2",
     "  tfftp00 = p000",
     "  for i in range(nz - 1):",
     "    for lvl in range(nlvls):",
     "      if levels[lvl] == i:",
     "        tfftp[lvl, 0, 0] = tfftp00",
     "    tfftp00 = tfftp00 - tfftq0[0, 0] * dz[i] * (0.5 / Kz[i] + 0.5 / Kz[i + 1])",
     "  for lvl in range(nlvls):",
     "    if levels[lvl] == nz - 1:",
     "      tfftp[lvl, 0, 0] = tfftp00",
     "if footprint:",
     "  shift = np.exp(1j * (Lx * (xm + px * dx) + Ly * (ym + py * dy)))",
     "  tfftp = tfftp * shift",
     "  tfftq = tfftq * shift",
     "else:",
     "  if xm ** 2 + ym ** 2 > 0.0:",
     "    shift = np.exp(1j * (Lx * (xm - xmx / 2) + Ly * (ym - ymx / 2)))",
     "    tfftp = tfftp * shift",
     "    tfftq = tfftq * shift",
     "tfftp = fftshift(tfftp, axes=(1, 2))",
     "tfftq = fftshift(tfftq, axes=(1, 2))",
     "pad_width = ((0, 0), (dly, nye - nly - dly), (dlx, nxe - nlx - dlx))",
     "fftp = np.pad(tfftp, pad_width, mode='constant', constant_values=0.0)",
     "fftq = np.pad(tfftq, pad_width, mode='constant', constant_values=0.0)",
     "fftp = ifftshift(fftp, axes=(1, 2))",
     "fftq = ifftshift(fftq, axes=(1, 2))",
     "if footprint:",
     "  p = fft2(fftp, norm='backward').real",
     "  q = fft2(fftq, norm='backward').real",
     "else:",
     "  p = ifft2(fftp, norm='forward').real",
     "  q = ifft2(fftq, norm='forward').real",
     "conc = p[:, py:nye - py, px:nxe - px]",
     "flx = q[:, py:nye - py, px:nxe - px]",
     "x = np.linspace(0, xmx, nx, endpoint=False)",
     "y = np.linspace(0, ymx, ny, endpoint=False)",
     "Z, Y, X = np.meshgrid(z[levels], y, x, indexing='ij')",
     "grid = (np.squeeze(X), np.squeeze(Y), np.squeeze(Z))",
     "result = (grid, np.squeeze(conc), np.squeeze(flx))",
     "if cache is not None and footprint:",
     "  cache.put(z, profiles, domain, modes, meas_pt, halo_used, precision, *result, extra=cache_extra)",
     "return result"] := rfl

theorem body_solver_ivp :
    (solver_ivp : List String) =
    ["@parallelize",
     "def ivp_solver(fftpq, profiles, z, levels, Lx, Ly)",
     "fftp0, fftq0 = fftpq",
     "u, v, Kx, Ky, Kz = profiles",
     "nxy = fftp0.shape[0]",
     "nlvls = len(levels)",
     "nz = len(z)",
     "dz = np.diff(z)",
     "fftpi, fftqi = (np.copy(fftp0), np.copy(fftq0))",
     "fftp = np.zeros((nlvls, nxy), dtype=np.complex128)",
     "fftq = np.zeros((nlvls, nxy), dtype=np.complex128)",
     "for i in range(nz - 1):",
     "  for lvl in range(nlvls):",
     "    if levels[lvl] == i:",
     "      fftp[lvl, ...] = fftpi",
     "      fftq[lvl, ...] = fftqi",
     "  Ti = -(Kx[i] * Lx ** 2 + Ky[i] * Ly ** 2) - 1j * u[i] * Lx - 1j * v[i] * Ly",
     "  Kzinv = 1.0 / Kz[i]",
     "  dzi = dz[i]",
     "  a = 1.0 - 0.5 * Kzinv * Ti * dzi ** 2",
     "  b = -Kzinv * dzi + 1.0 / 6.0 * Kzinv ** 2 * Ti * dzi ** 3",
     "  c = Ti * dzi - 1.0 / 6.0 * Kzinv * Ti ** 2 * dzi ** 3",
     "  d = 1.0 - 0.5 * Kzinv * Ti * dzi ** 2",
     "  dum = a * fftpi + b * fftqi",
     "  fftqi = c * fftpi + d * fftqi",
     "  fftpi = dum",
     "for lvl in range(nlvls):",
     "  if levels[lvl] == nz - 1:",
     "    fftp[lvl, ...] = fftpi",
     "    fftq[lvl, ...] = fftqi",
     "return (fftpi, fftqi, fftp, fftq)"] := rfl

theorem body_fftmgr_load_wisdom :
    (fftmgr_load_wisdom : List String) =
    ["def _load_wisdom(self)",
     "try:",
     "  if self.wisdom_file.exists():",
     "    with open(self.wisdom_file, 'rb') as f:",
     "      wisdom = pickle.load(f)",
     "      import_results = pyfftw.import_wisdom(wisdom)",
     "      if all(import_results):",
     "      else:",
     "  else:",
     "except Exception as e:"] := rfl

theorem body_fftmgr_save_wisdom :
    (fftmgr_save_wisdom : List String) =
    ["def _save_wisdom(self)",
     "try:",
     "  wisdom = pyfftw.export_wisdom()",
     "  with open(self.wisdom_file, 'wb') as f:",
     "    pickle.dump(wisdom, f)",
     "except Exception as e:"] := rfl

theorem body_fftmgr_clear_cache :
    (fftmgr_clear_cache : List String) =
    ["def clear_cache(self)",
     "pyfftw.interfaces.cache.disable()",
     "pyfftw.interfaces.cache.enable()"] := rfl

theorem body_fftmgr_cleanup :
    (fftmgr_cleanup : List String) =
    ["def _cleanup(self)",
     "self._save_wisdom()",
     "self.clear_cache()"] := rfl

theorem body_cache_clear :
    (cache_clear : List String) =
    ["def clear(self)",
     "count = 0",
     "for f in self.cache_dir.glob('*.npz'):",
     "  f.unlink()",
     "  count += 1"] := rfl

theorem body_cfg_parse_output :
    (cfg_parse_output : List String) =
    ["def _parse_output(d: dict)",
     "if d is None:",
     "  return OutputConfig()",
     "return OutputConfig(format=d.get('format', 'netcdf'), directory=d.get('directory', './output'))"] := rfl

theorem body_utils_sa_contribution :
    (utils_sa_contribution : List String) =
    ["def source_area_contribution(flx)",
     "return flx.copy()"] := rfl

theorem body_utils_sa_circular :
    (utils_sa_circular : List String) =
    ["def source_area_circular(X, Y, meas_pt)",
     "xm, ym = meas_pt",
     "return -((X - xm) ** 2 + (Y - ym) ** 2)"] := rfl

theorem body_utils_sa_upwind :
    (utils_sa_upwind : List String) =
    ["def source_area_upwind(X, Y, meas_pt, wind)",
     "xm, ym = meas_pt",
     "u, v = wind",
     "speed = np.sqrt(u ** 2 + v ** 2)",
     "u_hat, v_hat = (u / speed, v / speed)",
     "return u_hat * (X - xm) + v_hat * (Y - ym)"] := rfl

theorem body_utils_sa_crosswind :
    (utils_sa_crosswind : List String) =
    ["def source_area_crosswind(X, Y, meas_pt, wind)",
     "xm, ym = meas_pt",
     "u, v = wind",
     "speed = np.sqrt(u ** 2 + v ** 2)",
     "u_hat, v_hat = (u / speed, v / speed)",
     "return -(-v_hat * (X - xm) + u_hat * (Y - ym)) ** 2"] := rfl

theorem body_utils_sa_sector :
    (utils_sa_sector : List String) =
    ["def source_area_sector(X, Y, meas_pt, wind)",
     "xm, ym = meas_pt",
     "u, v = wind",
     "theta = np.arctan2(Y - ym, X - xm)",
     "theta_upwind = np.arctan2(-v, -u)",
     "theta_rel = theta - theta_upwind",
     "theta_rel = np.arctan2(np.sin(theta_rel), np.cos(theta_rel))",
     "return -np.abs(theta_rel)"] := rfl

theorem body_plot_extract_percentile_contour :
    (plot_extract_percentile_contour : List String) =
    ["def extract_percentile_contour(flx, grid, pct=0.8, level=0)",
     "flx, grid = _maybe_slice_level(flx, grid, level)",
     "X, Y, _ = grid",
     "dx = np.abs(X[0, 1] - X[0, 0]) if X.ndim == 2 else np.abs(X[1] - X[0])",
     "dy = np.abs(Y[1, 0] - Y[0, 0]) if Y.ndim == 2 else np.abs(Y[1] - Y[0])",
     "cell_area = dx * dy",
     "flat = flx.ravel()",
     "idx = np.argsort(flat)[::-1]",
     "sorted_vals = flat[idx]",
     "cumsum = np.cumsum(sorted_vals) * cell_area",
     "total = cumsum[-1]",
     "target = pct * total",
     "k = np.searchsorted(cumsum, target)",
     "level = sorted_vals[min(k, len(sorted_vals) - 1)]",
     "area = (k + 1) * cell_area",
     "return (float(level), float(area))"] := rfl

theorem body_km_phiM :
    (km_phiM : List String) =
    ["def _phiM(zm, mo_len)",
     "phi_m = np.zeros_like(zm, dtype=float)",
     "sflag = mo_len < 0",
     "phi_m[sflag] = (1 - 16 * zm[sflag] / mo_len[sflag]) ** (-0.25)",
     "sflag = mo_len >= 0",
     "phi_m[sflag] = 1 + 5 * zm[sflag] / mo_len[sflag]",
     "return phi_m"] := rfl

theorem body_km_phiC :
    (km_phiC : List String) =
    ["def _phiC(zm, mo_len)",
     "phi_c = np.zeros_like(zm, dtype=float)",
     "sflag = mo_len < 0",
     "phi_c[sflag] = (1 - 16 * zm[sflag] / mo_len[sflag]) ** (-0.5)",
     "sflag = mo_len >= 0",
     "phi_c[sflag] = 1 + 5 * zm[sflag] / mo_len[sflag]",
     "return phi_c"] := rfl

theorem body_km_psiM :
    (km_psiM : List String) =
    ["def _psiM(zm, mo_len)",
     "psi_m = np.zeros_like(zm, dtype=float)",
     "sflag = mo_len < 0",
     "inv_phi_m = (1 - 16 * zm[sflag] / mo_len[sflag]) ** 0.25",
     "psi_m[sflag] = -2 * np.log(0.5 * (1 + inv_phi_m)) - np.log(0.5 * (1 + inv_phi_m ** 2)) + 2 * np.arctan(inv_phi_m) - np.pi * 0.5",
     "sflag = mo_len >= 0",
     "psi_m[sflag] = 5 * zm[sflag] / mo_len[sflag]",
     "return psi_m"] := rfl

theorem body_km_mParam :
    (km_mParam : List String) =
    ["def _mParam(zm, ws, ustar, mo_len)",
     "k = von_karman",
     "phi_m = _phiM(zm, mo_len)",
     "m = ustar * phi_m / (k * ws)",
     "return m"] := rfl

theorem body_km_nParam :
    (km_nParam : List String) =
    ["def _nParam(zm, mo_len)",
     "n = np.zeros_like(zm, dtype=float)",
     "sflag = mo_len < 0",
     "n[sflag] = (1 - 24 * zm[sflag] / mo_len[sflag]) / (1 - 16 * zm[sflag] / mo_len[sflag])",
     "sflag = mo_len >= 0",
     "n[sflag] = 1 / (1 + 5 * zm[sflag] / mo_len[sflag])",
     "return n"] := rfl

theorem body_pbl_psi :
    (pbl_psi : List String) =
    ["def psi(x)",
     "xi = np.where(x > 0.0, np.nan, np.power(1.0 - 16.0 * x, 0.25, dtype=complex).real)",
     "return np.where(x > 0.0, 5.0 * x, -2.0 * np.log(0.5 * (1.0 + xi)) - np.log(0.5 * (1.0 + xi ** 2)) + 2.0 * np.arctan(xi) - 0.5 * np.pi)"] := rfl

theorem body_pbl_phi :
    (pbl_phi : List String) =
    ["def phi(x)",
     "return np.where(x > 0.0, 1.0 + 5.0 * x, np.power(1.0 - 16.0 * x, -0.5, dtype=complex).real)"] := rfl

theorem body_iface_make_cache :
    (iface_make_cache : List String) =
    ["def _make_cache(config)",
     "if config.parallel.use_cache and config.solver.footprint:",
     "  from .cache import GreensFunctionCache",
     "  return GreensFunctionCache()",
     "return None"] := rfl

theorem body_iface_run_timeseries :
    (iface_run_timeseries : List String) =
    ["def run_bldfm_timeseries(config: BLDFMConfig, tower: TowerConfig, surface_flux: np.ndarray=None)",
     "n = config.met.n_timesteps",
     "cache = _make_cache(config)",
     "results = []",
     "for i in range(n):",
     "  result = run_bldfm_single(config, tower, met_index=i, surface_flux=surface_flux, cache=cache)",
     "  results.append(result)",
     "return results"] := rfl

theorem body_iface_run_multitower :
    (iface_run_multitower : List String) =
    ["def run_bldfm_multitower(config: BLDFMConfig, surface_flux: np.ndarray=None)",
     "results = {}",
     "for tower in config.towers:",
     "  results[tower.name] = run_bldfm_timeseries(config, tower, surface_flux=surface_flux)",
     "return results"] := rfl

theorem body_iface_worker_single :
    (iface_worker_single : List String) =
    ["def _worker_single(args)",
     "config, tower, met_index = args",
     "os.environ['NUMBA_NUM_THREADS'] = '1'",
     "from bldfm import config as cfg",
     "cfg.NUM_THREADS = 1",
     "from .fft_manager import reset_fft_manager",
     "reset_fft_manager()",
     "return run_bldfm_single(config, tower, met_index=met_index)"] := rfl

theorem body_iface_worker_timeseries :
    (iface_worker_timeseries : List String) =
    ["def _worker_timeseries(args)",
     "config, tower = args",
     "os.environ['NUMBA_NUM_THREADS'] = '1'",
     "from bldfm import config as cfg",
     "cfg.NUM_THREADS = 1",
     "from .fft_manager import reset_fft_manager",
     "reset_fft_manager()",
     "return (tower.name, run_bldfm_timeseries(config, tower))"] := rfl

theorem body_iface_run_parallel :
    (iface_run_parallel : List String) =
    ["def run_bldfm_parallel(config: BLDFMConfig, max_workers: int=None, parallel_over: str='towers', surface_flux: np.ndarray=None)",
     "if surface_flux is not None:",
     "if max_workers is None:",
     "  max_workers = config.parallel.max_workers",
     "n_towers = len(config.towers)",
     "n_time = config.met.n_timesteps",
     "if parallel_over == 'towers':",
     "  tasks = [(config, tower) for tower in config.towers]",
     "  with ProcessPoolExecutor(max_workers=max_workers) as pool:",
     "    futures = pool.map(_worker_timeseries, tasks)",
     "  results = {name: res for name, res in futures}",
     "else:",
     "  if parallel_over == 'time':",
     "    results = {}",
     "    for tower in config.towers:",
     "      tasks = [(config, tower, i) for i in range(n_time)]",
     "      with ProcessPoolExecutor(max_workers=max_workers) as pool:",
     "        step_results = list(pool.map(_worker_single, tasks))",
     "      results[tower.name] = step_results",
     "  else:",
     "    if parallel_over == 'both':",
     "      tasks = []",
     "      for tower in config.towers:",
     "        for i in range(n_time):",
     "          tasks.append((config, tower, i))",
     "      with ProcessPoolExecutor(max_workers=max_workers) as pool:",
     "        flat_results = list(pool.map(_worker_single, tasks))",
     "      results = {}",
     "      idx = 0",
     "      for tower in config.towers:",
     "        results[tower.name] = flat_results[idx:idx + n_time]",
     "        idx += n_time",
     "    else:",
     "      raise ValueError(f'Unknown parallel_over={parallel_over!r}. Choose 'towers', 'time', or 'both'.')",
     "return results"] := rfl

end BLDFM.Bridge
