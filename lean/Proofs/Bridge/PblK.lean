/-
  Bridge: kernels regenerated from src/bldfm/pbl_model.py equal the model's (BLDFM/Pbl.lean).
-/
import Proofs.Lemmas.Spec
import Proofs.Lemmas.Tactics
import BLDFM.Generated.PblK

open BLDFM BLDFM.Spec

namespace BLDFM.Bridge

theorem psi_bridge (x : ℝ) : Generated.psi RC x = psi RC x := by
  simp only [Generated.psi, psi, psiUnstable, gt_iff_lt]
  by_cases h : (0.0 : ℝ) < x
  · simp only [h, if_true]
  · simp only [h, if_false]

theorem phi_bridge (x : ℝ) : Generated.phi RC x = phi RC x := by
  simp only [Generated.phi, phi, gt_iff_lt]

/-- closure parameters -/
theorem closure_params_bridge (zm um vm ustar z0 mol prsc dh st tke zeta : ℝ) (n : ℕ) :
    let absum := RC.sqrt (um ^ 2 + vm ^ 2)
    Generated.absum RC zm um vm ustar z0 mol prsc dh st tke n zeta (psi RC) (phi RC) = absum ∧
    Generated.z0FromUstar RC zm um vm ustar z0 mol prsc dh st tke n zeta (psi RC) (phi RC)
      = z0FromUstar RC zm absum ustar mol ∧
    Generated.ustarFromZ0 RC zm um vm ustar z0 mol prsc dh st tke n zeta (psi RC) (phi RC)
      = ustarFromZ0 RC zm absum z0 mol ∧
    Generated.z0Oaahoc RC zm um vm ustar z0 mol prsc dh st tke n zeta (psi RC) (phi RC)
      = z0Oaahoc RC zm absum ustar tke ∧
    Generated.hDefault RC zm um vm ustar z0 mol prsc dh st tke n zeta (psi RC) (phi RC) = 2.0 * zm ∧
    Generated.zmxDefault RC zm um vm ustar z0 mol prsc dh st tke n zeta (psi RC) (phi RC) = 2.0 * zm := by
  repeat' apply And.intro
  all_goals rfl

/-- the stretched grid -/
theorem grid_bridge (zm um vm ustar z0 mol prsc h zmx tke zeta : ℝ) (n : ℕ) :
    Generated.gridBB RC zm um vm ustar z0 mol prsc h zmx tke n zeta (psi RC) (phi RC) = gridBB RC zm z0 h ∧
    Generated.gridAA RC zm um vm ustar z0 mol prsc h zmx tke n zeta (psi RC) (phi RC) = gridAA RC zm z0 h ∧
    Generated.gridZetaMax RC zm um vm ustar z0 mol prsc h zmx tke n zeta (psi RC) (phi RC) = gridZetaMax RC zm z0 h zmx ∧
    Generated.dzeta RC zm um vm ustar z0 mol prsc h zmx tke n zeta (psi RC) (phi RC) = zm / RC.natCast n ∧
    Generated.arange RC zm um vm ustar z0 mol prsc h zmx tke n zeta (psi RC) (phi RC)
      = (0.0, gridZetaMax RC zm z0 h zmx + zm / RC.natCast n, zm / RC.natCast n) ∧
    Generated.gridZ RC zm um vm ustar z0 mol prsc h zmx tke n zeta (psi RC) (phi RC) = gridZ RC zm z0 h zeta := by
  repeat' apply And.intro
  all_goals rfl

/-- profiles of the four closures at a node of height `zk` -/
theorem profiles_bridge (zm um vm ustar z0 mol prsc h zmx tke zeta zk : ℝ) (n : ℕ) :
    let absum := RC.sqrt (um ^ 2 + vm ^ 2)
    let au := absuMost RC ustar z0 mol zk
    let K := kMost RC ustar mol prsc zk
    -- MOST
    Generated.uMost RC zm um vm ustar z0 mol prsc h zmx tke n zeta (psi RC) (phi RC) zk = um / absum * au ∧
    Generated.vMost RC zm um vm ustar z0 mol prsc h zmx tke n zeta (psi RC) (phi RC) zk = vm / absum * au ∧
    Generated.KxMost RC zm um vm ustar z0 mol prsc h zmx tke n zeta (psi RC) (phi RC) zk = K ∧
    Generated.KyMost RC zm um vm ustar z0 mol prsc h zmx tke n zeta (psi RC) (phi RC) zk = K ∧
    Generated.KzMost RC zm um vm ustar z0 mol prsc h zmx tke n zeta (psi RC) (phi RC) zk = K ∧
    -- MOSTM
    Generated.uMostm RC zm um vm ustar z0 mol prsc h zmx tke n zeta (psi RC) (phi RC) zk = um / absum * au ∧
    Generated.vMostm RC zm um vm ustar z0 mol prsc h zmx tke n zeta (psi RC) (phi RC) zk = vm / absum * au ∧
    Generated.KxMostm RC zm um vm ustar z0 mol prsc h zmx tke n zeta (psi RC) (phi RC) zk
      = K * (vm / absum * au) ^ 2 / ((um / absum * au) ^ 2 + (vm / absum * au) ^ 2) ∧
    Generated.KyMostm RC zm um vm ustar z0 mol prsc h zmx tke n zeta (psi RC) (phi RC) zk
      = K * (um / absum * au) ^ 2 / ((um / absum * au) ^ 2 + (vm / absum * au) ^ 2) ∧
    Generated.KzMostm RC zm um vm ustar z0 mol prsc h zmx tke n zeta (psi RC) (phi RC) zk = K ∧
    -- CONSTANT
    Generated.uConst RC zm um vm ustar z0 mol prsc h zmx tke n zeta (psi RC) (phi RC) zk = um * 1.0 ∧
    Generated.vConst RC zm um vm ustar z0 mol prsc h zmx tke n zeta (psi RC) (phi RC) zk = vm * 1.0 ∧
    Generated.KxConst RC zm um vm ustar z0 mol prsc h zmx tke n zeta (psi RC) (phi RC) zk = kappa * ustar * zm / prsc * 1.0 ∧
    Generated.KyConst RC zm um vm ustar z0 mol prsc h zmx tke n zeta (psi RC) (phi RC) zk = kappa * ustar * zm / prsc * 1.0 ∧
    Generated.KzConst RC zm um vm ustar z0 mol prsc h zmx tke n zeta (psi RC) (phi RC) zk = kappa * ustar * zm / prsc * 1.0 ∧
    -- OAAHOC
    Generated.uOaahoc RC zm um vm ustar z0 mol prsc h zmx tke n zeta (psi RC) (phi RC) zk
      = um / absum * (ustar ^ 2 / oaCm / oaCl / RC.sqrt tke * RC.log (zk / z0)) ∧
    Generated.vOaahoc RC zm um vm ustar z0 mol prsc h zmx tke n zeta (psi RC) (phi RC) zk
      = vm / absum * (ustar ^ 2 / oaCm / oaCl / RC.sqrt tke * RC.log (zk / z0)) ∧
    Generated.KxOaahoc RC zm um vm ustar z0 mol prsc h zmx tke n zeta (psi RC) (phi RC) zk = oaCh * oaCl * zk * RC.sqrt tke ∧
    Generated.KyOaahoc RC zm um vm ustar z0 mol prsc h zmx tke n zeta (psi RC) (phi RC) zk = oaCh * oaCl * zk * RC.sqrt tke ∧
    Generated.KzOaahoc RC zm um vm ustar z0 mol prsc h zmx tke n zeta (psi RC) (phi RC) zk = oaCh * oaCl * zk * RC.sqrt tke := by
  repeat' apply And.intro
  all_goals rfl

end BLDFM.Bridge
