/-
  Bridge: kernels regenerated from utils.py (`compute_wind_fields`), config_parser.py
  (`latlon_to_xy`) and plotting/_geo.py (`xy_to_latlon`) equal the model's.
-/
import Proofs.Lemmas.Spec
import Proofs.Lemmas.Tactics
import BLDFM.Generated.MiscK

open BLDFM BLDFM.Spec

namespace BLDFM.Bridge

theorem wind_bridge (s wd : ℝ) :
    (Generated.windU RC s wd, Generated.windV RC s wd) = windFields RC s wd := by
  simp only [Generated.windU, Generated.windV, windFields, deg2rad]

theorem latlon_bridge (lat lon refLat refLon : ℝ) :
    (Generated.ll2x RC lat lon refLat refLon, Generated.ll2y RC lat lon refLat refLon)
      = latlonToXy RC lat lon refLat refLon := by
  simp only [Generated.ll2x, Generated.ll2y, latlonToXy, deg2rad, earthRadius]

theorem xy_bridge (x y refLat refLon : ℝ) :
    (Generated.xy2lat RC x y refLat refLon, Generated.xy2lon RC x y refLat refLon)
      = xyToLatlon RC x y refLat refLon := by
  simp only [Generated.xy2lat, Generated.xy2lon, xyToLatlon, deg2rad, rad2deg, earthRadius]


/-- source-area base functions -/
theorem base_bridge (x y xm ym u v : ℝ) :
    Generated.baseCircular RC x y xm ym = baseCircular x y xm ym ∧
    Generated.baseUpwind RC x y xm ym u v = baseUpwind RC x y xm ym u v ∧
    Generated.baseCrosswind RC x y xm ym u v = baseCrosswind RC x y xm ym u v ∧
    Generated.baseSector RC x y xm ym u v = baseSector RC x y xm ym u v := by
  refine ⟨rfl, rfl, rfl, ?_⟩
  simp only [Generated.baseSector, baseSector]

end BLDFM.Bridge
