/-
  C07 (field level) — MIRRORING IN y, obtained by conjugating the x-mirror with the axis swap:
  `mirrorY = transpose ∘ mirrorX ∘ transpose`.  Source mirrored in y (`q'[j, i] = q[ny-1-j, i]`), `v ↦ -v`; when every
  retained y-slot has a partner (odd retained-mode count in y) both padded-domain fields are mirrored in y.
-/
import Proofs.Lemmas.Spec
import Proofs.Lemmas.Tactics
import Proofs.Lemmas.Repr
import Proofs.C02b
import Proofs.C07
import Proofs.C07b
import Proofs.C07e
import Proofs.Lemmas.Witness

open BLDFM BLDFM.Spec BLDFM.Index

namespace BLDFM.C07

/-- the shooting denominators of the transposed request are those of the original with the slots exchanged -/
theorem denOK_transpose (r : SolveReq ℝ) (hden : C02.DenOK r) : C02.DenOK (transposeOf r) := by
  have h := transposeOf_pair r
  intro han a b
  have han' : r.analytic = false := han
  have hd := hden han' b a
  rw [tr_waveX h, tr_waveY h]
  show (ivpState RC (swapXY r.P) r.z (waveY RC (geom RC r) b) (waveX RC (geom RC r) a) ((1.0 : ℂ), (0.0 : ℂ)) (r.nz - 1)).2
      - RC.ofReal ((swapXY r.P).Kz (r.nz - 1)) * eigval RC (swapXY r.P) (r.nz - 1) (waveY RC (geom RC r) b) (waveX RC (geom RC r) a)
        * (ivpState RC (swapXY r.P) r.z (waveY RC (geom RC r) b) (waveX RC (geom RC r) a) ((1.0 : ℂ), (0.0 : ℂ)) (r.nz - 1)).1 ≠ 0
  rw [ivp_congr r.P (swapXY r.P) r.z r.z (waveX RC (geom RC r) a) (waveY RC (geom RC r) b) (waveY RC (geom RC r) b) (waveX RC (geom RC r) a)
      ((1.0 : ℂ), (0.0 : ℂ)) (Tcoef_swap r.P _ _) (fun _ => rfl) (fun _ => rfl) (r.nz - 1), eigval_swap]
  exact hd

/-- the y-mirror image of a request -/
def mirrorYOf (r : SolveReq ℝ) : SolveReq ℝ :=
  { r with q := fun j i => r.q (r.ny - 1 - j) i, P := mirrorY r.P }

/-- the x-mirror image of a request -/
def mirrorXOf (r : SolveReq ℝ) : SolveReq ℝ :=
  { r with q := fun j i => r.q j (r.nx - 1 - i), P := mirrorX r.P }

theorem mirrorY_is_conjugate (r : SolveReq ℝ) : mirrorYOf r = transposeOf (mirrorXOf (transposeOf r)) := rfl

/-- MIRROR IN y, field form -/
theorem mirrorY_field (r : SolveReq ℝ) (hg : GeomOK (geom RC r)) (hp : r.precision = .double) (hden : C02.DenOK r)
    (hfp : r.footprint = false) (hxm : r.xm = 0) (hym : r.ym = 0) (hodd : (geom RC r).nly % 2 = 1)
    (l J I : ℕ) (hJ : J < (geom RC r).nye) :
    (fieldsAt RC (mirrorYOf r) (geom RC (mirrorYOf r)) (srcSpectrum RC (mirrorYOf r) (geom RC (mirrorYOf r))).get l).1.get J I
      = (fieldsAt RC r (geom RC r) (srcSpectrum RC r (geom RC r)).get l).1.get ((geom RC r).nye - 1 - J) I ∧
    (fieldsAt RC (mirrorYOf r) (geom RC (mirrorYOf r)) (srcSpectrum RC (mirrorYOf r) (geom RC (mirrorYOf r))).get l).2.get J I
      = (fieldsAt RC r (geom RC r) (srcSpectrum RC r (geom RC r)).get l).2.get ((geom RC r).nye - 1 - J) I := by
  rw [mirrorY_is_conjugate]
  set r1 := transposeOf r with hr1
  set r2 := mirrorXOf r1 with hr2
  have t01 : Transposed r r1 := transposeOf_pair r
  have t23 : Transposed r2 (transposeOf r2) := transposeOf_pair r2
  have m12 : MirroredX r1 r2 := rfl
  have hg1 : GeomOK (geom RC r1) := tr_geomOK t01 hg
  have hg2 : GeomOK (geom RC r2) := by rw [mx_geom m12]; exact hg1
  have hN : (geom RC r1).nxe = (geom RC r).nye := tr_nxe t01
  -- step 3 → 2 : transpose
  have s32 := transpose_field t23 hg2 l J I
  -- step 2 → 1 : x-mirror of the transposed request
  have s21 := mirrorX_field m12 hg1 hp (denOK_transpose r hden) hfp hym hxm
    (by rw [(tr_nl t01).1]; exact hodd) l I J (by rw [hN]; exact hJ)
  -- step 1 → 0 : transpose back
  have s10 := transpose_field t01 hg l I ((geom RC r1).nxe - 1 - J)
  rw [hN] at s21 s10
  exact ⟨s32.1.trans (s21.1.trans s10.1), s32.2.trans (s21.2.trans s10.2)⟩

end BLDFM.C07
