/-
  C17, accuracy clause — "for offsets of up to a few kilometres at non-polar latitudes the local distance
  agrees with the great-circle distance to within 0.1 percent".

  `equirect_core` (radians): with c = cos φ₀ ≥ 1/2, t² = a² + c² b², t ≤ 8·10⁻⁴ (5 km on the model's sphere is
  7.85·10⁻⁴ rad), the haversine angle θ = arcsin √(sin²(a/2) + cos φ₀ cos(φ₀ + a) sin²(b/2)) satisfies
  (1 − 10⁻³)·2θ ≤ t ≤ (1 + 10⁻³)·2θ.

  `equirect_distance_accuracy`: the model's `latlonToXy` (the translated `latlon_to_xy`), reference latitude
  within ±60°, local distance at most 5000 m: local distance and great-circle (haversine) distance on the same
  sphere agree to within 0.1 %.
-/
import Proofs.Lemmas.Spec
import Proofs.Lemmas.Tactics
import Mathlib.Analysis.SpecialFunctions.Trigonometric.Bounds
import Mathlib.Analysis.SpecialFunctions.Trigonometric.Inverse

open BLDFM BLDFM.Spec

namespace BLDFM.C17

/-- `x²(1 − x²/3) ≤ sin² x` for `|x| ≤ 1` -/
theorem sin_sq_lower (x : ℝ) (hx : |x| ≤ 1) : x ^ 2 * (1 - x ^ 2 / 3) ≤ Real.sin x ^ 2 := by
  wlog h0 : 0 ≤ x generalizing x
  · have := this (-x) (by simpa using hx) (by linarith)
    simpa using this
  rcases h0.eq_or_lt with rfl | hpos
  · simp
  have hx1 : x ≤ 1 := (abs_le.1 hx).2
  have h1 : x - x ^ 3 / 6 < Real.sin x := Real.sin_gt_sub_cube hpos
  have h2 : 0 ≤ x - x ^ 3 / 6 := by nlinarith [sq_nonneg x, mul_pos hpos hpos]
  have h3 : (x - x ^ 3 / 6) ^ 2 ≤ Real.sin x ^ 2 := pow_le_pow_left₀ h2 h1.le 2
  have h4 : x ^ 2 * (1 - x ^ 2 / 3) ≤ (x - x ^ 3 / 6) ^ 2 := by
    have : (x - x ^ 3 / 6) ^ 2 - x ^ 2 * (1 - x ^ 2 / 3) = x ^ 6 / 36 := by ring
    nlinarith [pow_nonneg hpos.le 6]
  linarith

/-- the haversine argument -/
noncomputable def hav (φ₀ a b : ℝ) : ℝ :=
  Real.sin (a / 2) ^ 2 + Real.cos φ₀ * Real.cos (φ₀ + a) * Real.sin (b / 2) ^ 2

/-- the algebra behind `hav_bounds`, free of trigonometric terms -/
theorem hav_alg (a b t ε c c1 sa sb : ℝ) (hc : 1 / 2 ≤ c) (ht0 : 0 ≤ t)
    (ht : t ^ 2 = a ^ 2 + c ^ 2 * b ^ 2) (hε : t ≤ ε) (hε1 : ε ≤ 1 / 2)
    (hlip : |c1 - c| ≤ |a|)
    (hsa_hi : sa ≤ (a / 2) ^ 2) (hsb_hi : sb ≤ (b / 2) ^ 2)
    (hsa_lo : (a / 2) ^ 2 * (1 - (a / 2) ^ 2 / 3) ≤ sa) (hsb_lo : (b / 2) ^ 2 * (1 - (b / 2) ^ 2 / 3) ≤ sb) :
    (1 - ε ^ 2) * (1 - 2 * ε) * t ^ 2 ≤ 4 * (sa + c * c1 * sb) ∧ 4 * (sa + c * c1 * sb) ≤ (1 + 2 * ε) * t ^ 2 := by
  have hε0 : 0 ≤ ε := ht0.trans hε
  have hcpos : 0 < c := by linarith
  have ha2 : a ^ 2 ≤ t ^ 2 := by nlinarith [sq_nonneg (c * b)]
  have habs : |a| ≤ t := abs_le_of_sq_le_sq ha2 ht0
  have haε : |a| ≤ ε := habs.trans hε
  have habs0 : 0 ≤ |a| := abs_nonneg a
  have hε2 : t ^ 2 ≤ ε ^ 2 := pow_le_pow_left₀ ht0 hε 2
  have hεsq : ε ^ 2 ≤ 1 / 4 := by nlinarith
  have hc2 : (1 / 4 : ℝ) ≤ c ^ 2 := by nlinarith
  have hb2' : b ^ 2 ≤ 4 * t ^ 2 := by nlinarith [sq_nonneg b, sq_nonneg a]
  have hc1_lo : c - |a| ≤ c1 := by have := (abs_le.1 hlip).1; linarith
  have hc1_hi : c1 ≤ c + |a| := by have := (abs_le.1 hlip).2; linarith
  have hA : (a / 2) ^ 2 / 3 ≤ ε ^ 2 := by nlinarith
  have hB : (b / 2) ^ 2 / 3 ≤ ε ^ 2 := by nlinarith
  have hsb0 : 0 ≤ sb := by
    have : 0 ≤ (b / 2) ^ 2 * (1 - (b / 2) ^ 2 / 3) := mul_nonneg (sq_nonneg _) (by linarith)
    linarith
  have hcab : c * |a| ≤ 2 * ε * c ^ 2 := by
    have h1 : c * |a| ≤ c * ε := mul_le_mul_of_nonneg_left haε hcpos.le
    have h2 : 0 ≤ (2 * c - 1) * (c * ε) := mul_nonneg (by linarith) (mul_nonneg hcpos.le hε0)
    nlinarith
  have h1ε : 0 ≤ 1 - ε ^ 2 := by linarith
  constructor
  · -- lower bound
    have h1 : a ^ 2 / 4 * (1 - ε ^ 2) ≤ sa := by
      have h' : (a / 2) ^ 2 * (1 - ε ^ 2) ≤ (a / 2) ^ 2 * (1 - (a / 2) ^ 2 / 3) :=
        mul_le_mul_of_nonneg_left (by linarith) (sq_nonneg _)
      have e : a ^ 2 / 4 * (1 - ε ^ 2) = (a / 2) ^ 2 * (1 - ε ^ 2) := by ring
      rw [e]; linarith
    have h2 : b ^ 2 / 4 * (1 - ε ^ 2) ≤ sb := by
      have h' : (b / 2) ^ 2 * (1 - ε ^ 2) ≤ (b / 2) ^ 2 * (1 - (b / 2) ^ 2 / 3) :=
        mul_le_mul_of_nonneg_left (by linarith) (sq_nonneg _)
      have e : b ^ 2 / 4 * (1 - ε ^ 2) = (b / 2) ^ 2 * (1 - ε ^ 2) := by ring
      rw [e]; linarith
    have h3 : c ^ 2 * (1 - 2 * ε) ≤ c * c1 := by
      have h' : c * (c - |a|) ≤ c * c1 := mul_le_mul_of_nonneg_left hc1_lo hcpos.le
      have e : c ^ 2 * (1 - 2 * ε) = c * c - 2 * ε * c ^ 2 := by ring
      have e' : c * (c - |a|) = c * c - c * |a| := by ring
      rw [e]; rw [e'] at h'; linarith
    have h30 : 0 ≤ c ^ 2 * (1 - 2 * ε) := mul_nonneg (sq_nonneg _) (by linarith)
    have h4 : c ^ 2 * (1 - 2 * ε) * (b ^ 2 / 4 * (1 - ε ^ 2)) ≤ c * c1 * sb :=
      (mul_le_mul_of_nonneg_left h2 h30).trans (mul_le_mul_of_nonneg_right h3 hsb0)
    have h5 : (1 - ε ^ 2) * (1 - 2 * ε) * a ^ 2 ≤ (1 - ε ^ 2) * a ^ 2 := by
      have h' : 0 ≤ (1 - ε ^ 2) * a ^ 2 * ε := mul_nonneg (mul_nonneg h1ε (sq_nonneg a)) hε0
      have e : (1 - ε ^ 2) * (1 - 2 * ε) * a ^ 2 = (1 - ε ^ 2) * a ^ 2 - 2 * ((1 - ε ^ 2) * a ^ 2 * ε) := by ring
      rw [e]; linarith
    have key : (1 - ε ^ 2) * (1 - 2 * ε) * t ^ 2
        = (1 - ε ^ 2) * (1 - 2 * ε) * a ^ 2 + 4 * (c ^ 2 * (1 - 2 * ε) * (b ^ 2 / 4 * (1 - ε ^ 2))) := by
      rw [ht]; ring
    have e1 : (1 - ε ^ 2) * a ^ 2 = 4 * (a ^ 2 / 4 * (1 - ε ^ 2)) := by ring
    rw [key]
    linarith
  · -- upper bound
    have h3 : c * c1 ≤ c ^ 2 * (1 + 2 * ε) := by
      have h' : c * c1 ≤ c * (c + |a|) := mul_le_mul_of_nonneg_left hc1_hi hcpos.le
      have e : c ^ 2 * (1 + 2 * ε) = c * c + 2 * ε * c ^ 2 := by ring
      have e' : c * (c + |a|) = c * c + c * |a| := by ring
      rw [e]; rw [e'] at h'; linarith
    have h4 : c * c1 * sb ≤ c ^ 2 * (1 + 2 * ε) * (b / 2) ^ 2 :=
      (mul_le_mul_of_nonneg_right h3 hsb0).trans
        (mul_le_mul_of_nonneg_left hsb_hi (mul_nonneg (sq_nonneg _) (by linarith)))
    have key : (1 + 2 * ε) * t ^ 2 = (1 + 2 * ε) * a ^ 2 + 4 * (c ^ 2 * (1 + 2 * ε) * (b / 2) ^ 2) := by
      rw [ht]; ring
    have h6 : 4 * sa ≤ (1 + 2 * ε) * a ^ 2 := by
      have e : (1 + 2 * ε) * a ^ 2 = 4 * (a / 2) ^ 2 + 2 * (ε * a ^ 2) := by ring
      have : 0 ≤ ε * a ^ 2 := mul_nonneg hε0 (sq_nonneg a)
      rw [e]; linarith
    rw [key]
    linarith

/-- two-sided bound of the haversine argument by the squared local (equirectangular) angle -/
theorem hav_bounds (φ₀ a b t ε : ℝ) (hc : 1 / 2 ≤ Real.cos φ₀) (ht0 : 0 ≤ t)
    (ht : t ^ 2 = a ^ 2 + Real.cos φ₀ ^ 2 * b ^ 2) (hε : t ≤ ε) (hε1 : ε ≤ 1 / 2) :
    (1 - ε ^ 2) * (1 - 2 * ε) * t ^ 2 ≤ 4 * hav φ₀ a b ∧ 4 * hav φ₀ a b ≤ (1 + 2 * ε) * t ^ 2 := by
  have hε0 : 0 ≤ ε := ht0.trans hε
  have hlip : |Real.cos (φ₀ + a) - Real.cos φ₀| ≤ |a| := by
    have := Real.abs_cos_sub_cos_le (φ₀ + a) φ₀
    simpa using this
  have hc_le : Real.cos φ₀ ≤ 1 := Real.cos_le_one _
  have ha2 : a ^ 2 ≤ t ^ 2 := by nlinarith [sq_nonneg (Real.cos φ₀ * b)]
  have hε2 : t ^ 2 ≤ ε ^ 2 := pow_le_pow_left₀ ht0 hε 2
  have hb2' : b ^ 2 ≤ 4 * t ^ 2 := by
    have : (1 / 4 : ℝ) ≤ Real.cos φ₀ ^ 2 := by nlinarith
    nlinarith [sq_nonneg b, sq_nonneg a]
  have ha_half : |a / 2| ≤ 1 := by
    have : (a / 2) ^ 2 ≤ 1 ^ 2 := by nlinarith
    exact abs_le_of_sq_le_sq this (by norm_num)
  have hb_half : |b / 2| ≤ 1 := by
    have : (b / 2) ^ 2 ≤ 1 ^ 2 := by nlinarith
    exact abs_le_of_sq_le_sq this (by norm_num)
  exact hav_alg a b t ε (Real.cos φ₀) (Real.cos (φ₀ + a)) (Real.sin (a / 2) ^ 2) (Real.sin (b / 2) ^ 2) hc ht0 ht hε hε1
    hlip Real.sin_sq_le_sq Real.sin_sq_le_sq (sin_sq_lower _ ha_half) (sin_sq_lower _ hb_half)

/-- core statement in radians -/
theorem equirect_core (φ₀ a b t : ℝ) (hc : 1 / 2 ≤ Real.cos φ₀) (ht0 : 0 ≤ t)
    (ht : t ^ 2 = a ^ 2 + Real.cos φ₀ ^ 2 * b ^ 2) (hε : t ≤ 8 / 10000) :
    (1 - 1 / 1000) * (2 * Real.arcsin (Real.sqrt (hav φ₀ a b))) ≤ t ∧
      t ≤ (1 + 1 / 1000) * (2 * Real.arcsin (Real.sqrt (hav φ₀ a b))) := by
  obtain ⟨hlo, hhi⟩ := hav_bounds φ₀ a b t (8 / 10000) hc ht0 ht hε (by norm_num)
  generalize hav φ₀ a b = h at *
  -- numeric facts about ε = 8·10⁻⁴, δ = 10⁻³
  have hlo' : (9984 / 10000 - 1 / 1000000) * t ^ 2 ≤ 4 * h := by
    have : (9984 / 10000 - 1 / 1000000 : ℝ) ≤ (1 - (8 / 10000) ^ 2) * (1 - 2 * (8 / 10000)) := by norm_num
    nlinarith [sq_nonneg t]
  have hhi' : 4 * h ≤ (10016 / 10000) * t ^ 2 := by
    have : (1 + 2 * (8 / 10000) : ℝ) = 10016 / 10000 := by norm_num
    rw [this] at hhi; exact hhi
  clear hlo hhi
  have hε2 : t ^ 2 ≤ 64 / 100000000 := by
    have := pow_le_pow_left₀ ht0 hε 2
    norm_num at this ⊢
    linarith
  have hh0 : 0 ≤ h := by nlinarith [sq_nonneg t]
  have hh1 : h ≤ 1 := by nlinarith
  have hs0 : 0 ≤ Real.sqrt h := Real.sqrt_nonneg _
  have hs2 : Real.sqrt h ^ 2 = h := Real.sq_sqrt hh0
  have hs1 : Real.sqrt h ≤ 1 := by
    have : Real.sqrt h ≤ Real.sqrt 1 := Real.sqrt_le_sqrt hh1
    simpa using this
  generalize Real.sqrt h = s at *
  have hθ0 : 0 ≤ Real.arcsin s := Real.arcsin_nonneg.2 hs0
  have hθ1 : Real.arcsin s ≤ Real.pi / 2 := Real.arcsin_le_pi_div_two _
  have hsin : Real.sin (Real.arcsin s) = s := Real.sin_arcsin (by linarith) hs1
  generalize Real.arcsin s = θ at *
  have hge : s ≤ θ := by rw [← hsin]; exact Real.sin_le hθ0
  have hst : s ≤ t := by
    have : s ^ 2 ≤ t ^ 2 := by nlinarith
    exact (abs_le_of_sq_le_sq' this ht0).2
  have hjor : θ ≤ 2 * s := by
    have hj := Real.mul_le_sin hθ0 hθ1
    rw [hsin] at hj
    have hpi : Real.pi ≤ 4 := Real.pi_le_four
    have hpi0 : 0 < Real.pi := Real.pi_pos
    have h2 : 2 / Real.pi * θ * (Real.pi / 2) ≤ s * (Real.pi / 2) :=
      mul_le_mul_of_nonneg_right hj (by positivity)
    have h3 : 2 / Real.pi * θ * (Real.pi / 2) = θ := by field_simp
    nlinarith
  have hθε : θ ≤ 16 / 10000 := by linarith
  have hup : (1 - 1 / 1000000) * θ ≤ s := by
    rcases hθ0.eq_or_lt with h0 | hpos
    · rw [← h0]; simpa using hs0
    · have h1 := Real.sin_gt_sub_cube hpos
      rw [hsin] at h1
      have : θ ^ 3 / 6 ≤ (1 / 1000000) * θ := by
        have : θ ^ 2 ≤ (16 / 10000) ^ 2 := pow_le_pow_left₀ hθ0 hθε 2
        nlinarith
      linarith
  constructor
  · -- (1 − δ)·2θ ≤ t
    have hA : (999 / 1000) * (2 * s) ≤ (1 - 1 / 1000000) * t := by
      have hsq : ((999 / 1000) * (2 * s)) ^ 2 ≤ ((1 - 1 / 1000000) * t) ^ 2 := by
        have : ((999 / 1000 : ℝ) * (2 * s)) ^ 2 = (999 / 1000) ^ 2 * (4 * h) := by rw [← hs2]; ring
        rw [this]
        nlinarith [sq_nonneg t]
      exact (abs_le_of_sq_le_sq' hsq (by positivity)).2
    have hB : (1 - 1 / 1000000) * ((999 / 1000) * (2 * θ)) ≤ (999 / 1000) * (2 * s) := by nlinarith
    have hpos : (0 : ℝ) < 1 - 1 / 1000000 := by norm_num
    have := hB.trans hA
    have h9 : (1 - 1 / 1000 : ℝ) = 999 / 1000 := by norm_num
    rw [h9]
    exact le_of_mul_le_mul_left this hpos
  · -- t ≤ (1 + δ)·2θ
    have hA : t ≤ (1001 / 1000) * (2 * s) := by
      have hsq : t ^ 2 ≤ ((1001 / 1000) * (2 * s)) ^ 2 := by
        have : ((1001 / 1000 : ℝ) * (2 * s)) ^ 2 = (1001 / 1000) ^ 2 * (4 * h) := by rw [← hs2]; ring
        rw [this]
        nlinarith [sq_nonneg t]
      exact (abs_le_of_sq_le_sq' hsq (by positivity)).2
    have h9 : (1 + 1 / 1000 : ℝ) = 1001 / 1000 := by norm_num
    rw [h9]
    nlinarith

/-- great-circle (haversine) distance on the sphere of radius `R`, arguments in degrees -/
noncomputable def haversine (R lat lon refLat refLon : ℝ) : ℝ :=
  2 * R * Real.arcsin (Real.sqrt (hav (refLat * (Real.pi / 180)) ((lat - refLat) * (Real.pi / 180))
    ((lon - refLon) * (Real.pi / 180))))

/-- **C17 accuracy clause (distance).**  For a reference latitude within ±60° and a point whose local
(equirectangular) distance from the reference origin is at most 5000 m, the local distance computed from the
model's `latlonToXy` agrees with the great-circle distance on the same sphere to within 0.1 %. -/
theorem equirect_distance_accuracy (lat lon refLat refLon : ℝ) (hlat : |refLat| ≤ 60)
    (hd : Real.sqrt ((latlonToXy RC lat lon refLat refLon).1 ^ 2 + (latlonToXy RC lat lon refLat refLon).2 ^ 2) ≤ 5000) :
    let d := Real.sqrt ((latlonToXy RC lat lon refLat refLon).1 ^ 2 + (latlonToXy RC lat lon refLat refLon).2 ^ 2)
    let g := haversine 6371000 lat lon refLat refLon
    (1 - 1 / 1000) * g ≤ d ∧ d ≤ (1 + 1 / 1000) * g := by
  intro d g
  set φ₀ := refLat * (Real.pi / 180) with hφ
  set a := (lat - refLat) * (Real.pi / 180) with ha
  set b := (lon - refLon) * (Real.pi / 180) with hb
  have hpi := Real.pi_pos
  -- cos φ₀ ≥ 1/2
  have hc : 1 / 2 ≤ Real.cos φ₀ := by
    have habs : |φ₀| ≤ Real.pi / 3 := by
      rw [hφ, abs_mul, abs_of_pos (by positivity : (0 : ℝ) < Real.pi / 180)]
      nlinarith
    rw [← Real.cos_abs φ₀, ← Real.cos_pi_div_three]
    exact Real.cos_le_cos_of_nonneg_of_le_pi (abs_nonneg _) (by linarith) habs
  -- the local coordinates
  have hx : (latlonToXy RC lat lon refLat refLon).1 = 6371000 * (b * Real.cos φ₀) := by
    simp only [latlonToXy, deg2rad, earthRadius]
    rc_norm
    rw [hb, hφ]; norm_num; ring
  have hy : (latlonToXy RC lat lon refLat refLon).2 = 6371000 * a := by
    simp only [latlonToXy, deg2rad, earthRadius]
    rc_norm
    rw [ha]; norm_num; ring
  set t := Real.sqrt (a ^ 2 + Real.cos φ₀ ^ 2 * b ^ 2) with htdef
  have ht0 : 0 ≤ t := Real.sqrt_nonneg _
  have ht : t ^ 2 = a ^ 2 + Real.cos φ₀ ^ 2 * b ^ 2 := Real.sq_sqrt (by positivity)
  have hdt : d = 6371000 * t := by
    show Real.sqrt _ = _
    rw [hx, hy]
    have : (6371000 * (b * Real.cos φ₀)) ^ 2 + (6371000 * a) ^ 2 = 6371000 ^ 2 * (a ^ 2 + Real.cos φ₀ ^ 2 * b ^ 2) := by ring
    rw [this, Real.sqrt_mul (by positivity), Real.sqrt_sq (by norm_num)]
  have hε : t ≤ 8 / 10000 := by
    have : d ≤ 5000 := hd
    rw [hdt] at this
    linarith
  obtain ⟨h1, h2⟩ := equirect_core φ₀ a b t hc ht0 ht hε
  have hg : g = 6371000 * (2 * Real.arcsin (Real.sqrt (hav φ₀ a b))) := by
    show haversine _ _ _ _ _ = _
    unfold haversine; ring
  rw [hdt, hg]
  constructor <;> nlinarith

/-! non-vacuity: a tower 3 km north-east of a reference at 50°N satisfies the hypotheses -/
example : |(50 : ℝ)| ≤ 60 := by norm_num

end BLDFM.C17
