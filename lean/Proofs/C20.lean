/-
  C20 — source-area rescaling and percentile contours mean what they say.
  `σ` is ANY sorting permutation `argsort` may return (`g ∘ σ` non-increasing), so the tie
  freedom of the statement ("cells tied with it may or may not be counted") is built in.
-/
import Proofs.Lemmas.Spec
import Proofs.Lemmas.Tactics
import Mathlib.Data.List.Nodup
import Mathlib.Algebra.BigOperators.Group.Finset.Basic
import Mathlib.Algebra.Order.BigOperators.Group.Finset

open BLDFM BLDFM.Spec

namespace BLDFM.C20

theorem prefixSum_eq (f : ℕ → ℝ) (σ : List ℕ) (k : ℕ) :
    prefixSum f σ k = ∑ l ∈ Finset.range k, f (σ.getD l 0) := by
  unfold prefixSum
  have h0 : (0.0 : ℝ) = 0 := by norm_num
  rw [h0, sumN_eq_sum]

/-- the rescaled value at the cell ranked `k` is the sum of `f` over the cells ranked
strictly before it -/
theorem rescaled_eq_prefix_sum (f : ℕ → ℝ) (σ : List ℕ) (hnd : σ.Nodup) (k : ℕ) (hk : k < σ.length) :
    rescaled f σ (σ[k]) = ∑ l ∈ Finset.range k, f (σ.getD l 0) := by
  have hidx : σ.idxOf (σ[k]) = k := by
    have := List.get_idxOf hnd ⟨k, hk⟩
    simpa using this
  simp only [rescaled, hidx, hk, if_true, prefixSum_eq]

/-- `0 ≤ out c ≤ total − f c` for a non-negative footprint (so `out c < total` whenever `f c > 0`) -/
theorem rescaled_bounds (f : ℕ → ℝ) (hf : ∀ c, 0 ≤ f c) (σ : List ℕ) (hnd : σ.Nodup) (k : ℕ) (hk : k < σ.length) :
    0 ≤ rescaled f σ (σ[k]) ∧
      rescaled f σ (σ[k]) + f (σ[k]) ≤ ∑ l ∈ Finset.range σ.length, f (σ.getD l 0) := by
  rw [rescaled_eq_prefix_sum f σ hnd k hk]
  constructor
  · exact Finset.sum_nonneg (fun l _ => hf _)
  · have hsub : Finset.range (k + 1) ⊆ Finset.range σ.length := by
      intro x hx; simp only [Finset.mem_range] at hx ⊢; omega
    have h1 : ∑ l ∈ Finset.range (k + 1), f (σ.getD l 0) ≤ ∑ l ∈ Finset.range σ.length, f (σ.getD l 0) :=
      Finset.sum_le_sum_of_subset_of_nonneg hsub (fun l _ _ => hf _)
    rw [Finset.sum_range_succ] at h1
    have : σ.getD k 0 = σ[k] := by simp [List.getD, hk]
    rw [this] at h1
    exact h1

/-- the rescaled value does not increase with the rank-defining field: a cell ranked later
(lower `g`) has a value at least as large — the prefix sums of a non-negative field grow -/
theorem rescaled_antitone (f : ℕ → ℝ) (hf : ∀ c, 0 ≤ f c) (σ : List ℕ) (hnd : σ.Nodup)
    (k k' : ℕ) (hkk : k ≤ k') (hk' : k' < σ.length) :
    rescaled f σ (σ[k]'(by omega)) ≤ rescaled f σ (σ[k']) := by
  rw [rescaled_eq_prefix_sum f σ hnd k (by omega), rescaled_eq_prefix_sum f σ hnd k' hk']
  apply Finset.sum_le_sum_of_subset_of_nonneg
  · intro x hx; simp only [Finset.mem_range] at hx ⊢; omega
  · intro l _ _; exact hf _

/-- with `g ∘ σ` non-increasing, a cell with strictly larger `g` is ranked strictly earlier,
hence `g c < g c' → out c' ≤ out c` -/
theorem rescaled_antitone_in_g (f g : ℕ → ℝ) (hf : ∀ c, 0 ≤ f c) (σ : List ℕ) (hnd : σ.Nodup)
    (hsorted : ∀ a b, ∀ hab : a ≤ b, ∀ hb : b < σ.length, g (σ[b]) ≤ g (σ[a]'(by omega)))
    (k k' : ℕ) (hk : k < σ.length) (hk' : k' < σ.length) (hg : g (σ[k]) < g (σ[k'])) :
    rescaled f σ (σ[k']) ≤ rescaled f σ (σ[k]) := by
  have hlt : k' ≤ k := by
    by_contra hcon
    have := hsorted k k' (by omega) hk'
    linarith
  exact rescaled_antitone f hf σ hnd k' k hlt hk

/-- any strictly increasing transformation of `g` has the same sorting permutations, so the
rescaled field (a function of `f` and `σ` only) is unchanged -/
theorem rescaled_increasing_map (g : ℕ → ℝ) (φ : ℝ → ℝ) (hφ : StrictMono φ) (σ : List ℕ)
    (a b : ℕ) (ha : a < σ.length) (hb : b < σ.length) :
    (g (σ[b]) ≤ g (σ[a])) ↔ (φ (g (σ[b])) ≤ φ (g (σ[a]))) :=
  hφ.le_iff_le.symm

/-- scaling the footprint scales the rescaled field -/
theorem rescaled_scale (f : ℕ → ℝ) (lam : ℝ) (σ : List ℕ) (c : ℕ) :
    rescaled (fun i => lam * f i) σ c = lam * rescaled f σ c := by
  simp only [rescaled]
  split
  · rw [prefixSum_eq, prefixSum_eq, Finset.mul_sum]
  · norm_num

/-! ### percentile contours -/

/-- `searchsorted` (left) of a non-decreasing array = number of entries strictly below the target;
it is monotone in the target -/
theorem searchsorted_mono (cs : ℕ → ℝ) (n : ℕ) (t t' : ℝ) (h : t ≤ t') :
    searchsortedLeft cs n t ≤ searchsortedLeft cs n t' := by
  unfold searchsortedLeft
  apply List.countP_mono_left
  intro i _ hi
  simp only [decide_eq_true_eq] at hi ⊢
  linarith

/-- every entry before the returned index is below the target, and (for a non-decreasing array) the
entry AT the returned index reaches it: the contour holds the FEWEST top cells whose sum reaches
`p · total` -/
theorem searchsorted_spec (cs : ℕ → ℝ) (n : ℕ) (t : ℝ) (hmono : ∀ i j, i ≤ j → j < n → cs i ≤ cs j) :
    (∀ i, i < searchsortedLeft cs n t → cs i < t) ∧
    (∀ i, searchsortedLeft cs n t ≤ i → i < n → t ≤ cs i) := by
  -- the entries below t form an initial segment
  have key : ∀ m ≤ n, (List.range m).countP (fun i => decide (cs i < t)) ≤ m ∧
      (∀ i, i < (List.range m).countP (fun i => decide (cs i < t)) → cs i < t) ∧
      (∀ i, (List.range m).countP (fun i => decide (cs i < t)) ≤ i → i < m → t ≤ cs i) := by
    intro m
    induction m with
    | zero => intro _; simp
    | succ m ih =>
      intro hm
      obtain ⟨h1, h2, h3⟩ := ih (by omega)
      rw [List.range_succ, List.countP_append]
      simp only [List.countP_cons, List.countP_nil, zero_add]
      by_cases hc : cs m < t
      · simp only [hc, decide_true, if_true]
        have hall : (List.range m).countP (fun i => decide (cs i < t)) = m := by
          by_contra hne
          have hlt : (List.range m).countP (fun i => decide (cs i < t)) < m := by omega
          have := h3 _ (le_refl _) hlt
          have := hmono _ m (by omega) (by omega)
          linarith
        rw [hall]
        refine ⟨by omega, ?_, ?_⟩
        · intro i hi
          rcases Nat.lt_succ_iff_lt_or_eq.mp hi with h | h
          · exact h2 i (by rw [hall]; exact h)
          · rw [h]; exact hc
        · intro i hi hi'; omega
      · simp only [hc, decide_false, Bool.false_eq_true, if_false, add_zero]
        refine ⟨by omega, h2, ?_⟩
        intro i hi hi'
        rcases Nat.lt_succ_iff_lt_or_eq.mp hi' with h | h
        · exact h3 i hi h
        · rw [h]; exact not_lt.mp hc
  obtain ⟨_, h2, h3⟩ := key n (le_refl n)
  exact ⟨h2, h3⟩

/-- area does not decrease with the fraction `p` (cell area and total positive) -/
theorem percentile_area_mono (sorted : ℕ → ℝ) (n : ℕ) (cell p p' : ℝ) (hcell : 0 < cell)
    (htot : 0 ≤ sumN (0.0 : ℝ) (n - 1 + 1) sorted * cell) (hp : p ≤ p') :
    (percentileContour RC sorted n cell p).2 ≤ (percentileContour RC sorted n cell p').2 := by
  simp only [percentileContour]
  rc_norm
  have := searchsorted_mono (fun k => sumN (0.0 : ℝ) (k + 1) sorted * cell) n
    (p * (sumN (0.0 : ℝ) (n - 1 + 1) sorted * cell)) (p' * (sumN (0.0 : ℝ) (n - 1 + 1) sorted * cell))
    (mul_le_mul_of_nonneg_right hp htot)
  have hc : ((searchsortedLeft (fun k => sumN (0.0 : ℝ) (k + 1) sorted * cell) n (p * (sumN (0.0 : ℝ) (n - 1 + 1) sorted * cell)) : ℕ) : ℝ)
      ≤ ((searchsortedLeft (fun k => sumN (0.0 : ℝ) (k + 1) sorted * cell) n (p' * (sumN (0.0 : ℝ) (n - 1 + 1) sorted * cell)) : ℕ) : ℝ) := by
    exact_mod_cast this
  nlinarith

/-- level does not increase with `p` (values sorted in non-increasing order) -/
theorem percentile_level_antitone (sorted : ℕ → ℝ) (n : ℕ) (cell p p' : ℝ)
    (hsorted : ∀ i j, i ≤ j → sorted j ≤ sorted i)
    (htot : 0 ≤ sumN (0.0 : ℝ) (n - 1 + 1) sorted * cell) (hp : p ≤ p') :
    (percentileContour RC sorted n cell p').1 ≤ (percentileContour RC sorted n cell p).1 := by
  simp only [percentileContour]
  apply hsorted
  have := searchsorted_mono (fun k => sumN (0.0 : ℝ) (k + 1) sorted * cell) n
    (p * (sumN (0.0 : ℝ) (n - 1 + 1) sorted * cell)) (p' * (sumN (0.0 : ℝ) (n - 1 + 1) sorted * cell))
    (mul_le_mul_of_nonneg_right hp htot)
  omega

/-- scaling the footprint by `lam > 0` scales the level and leaves the area unchanged -/
theorem percentile_scale (sorted : ℕ → ℝ) (n : ℕ) (cell p lam : ℝ) (hlam : 0 < lam) :
    percentileContour RC (fun i => lam * sorted i) n cell p =
      (lam * (percentileContour RC sorted n cell p).1, (percentileContour RC sorted n cell p).2) := by
  have hs : ∀ m, sumN (0.0 : ℝ) m (fun i => lam * sorted i) = lam * sumN (0.0 : ℝ) m sorted := by
    intro m
    induction m with
    | zero => simp [sumN]; norm_num
    | succ m ih => simp only [sumN, ih]; ring
  have hss : searchsortedLeft (fun k => sumN (0.0 : ℝ) (k + 1) (fun i => lam * sorted i) * cell) n
      (p * (sumN (0.0 : ℝ) (n - 1 + 1) (fun i => lam * sorted i) * cell))
      = searchsortedLeft (fun k => sumN (0.0 : ℝ) (k + 1) sorted * cell) n (p * (sumN (0.0 : ℝ) (n - 1 + 1) sorted * cell)) := by
    unfold searchsortedLeft
    congr 1
    funext i
    simp only [hs]
    have : lam * sumN (0.0 : ℝ) (i + 1) sorted * cell < p * (lam * sumN (0.0 : ℝ) (n - 1 + 1) sorted * cell) ↔
        sumN (0.0 : ℝ) (i + 1) sorted * cell < p * (sumN (0.0 : ℝ) (n - 1 + 1) sorted * cell) := by
      constructor <;> intro h <;> nlinarith
    simp only [this]
  simp only [percentileContour, hss]

/-! ### base functions: level-set geometry -/

theorem upwind_is_projection (x y xm ym u v : ℝ) :
    baseUpwind RC x y xm ym u v = (u * (x - xm) + v * (y - ym)) / Real.sqrt (u ^ 2 + v ^ 2) := by
  simp only [baseUpwind]; rc_norm; ring

theorem crosswind_is_neg_sq_distance (x y xm ym u v : ℝ) :
    baseCrosswind RC x y xm ym u v = -(((-v) * (x - xm) + u * (y - ym)) / Real.sqrt (u ^ 2 + v ^ 2)) ^ 2 := by
  simp only [baseCrosswind]; rc_norm; ring

theorem circular_is_neg_sq_radius (x y xm ym : ℝ) :
    baseCircular x y xm ym = -((x - xm) ^ 2 + (y - ym) ^ 2) := rfl

/-! non-vacuity: a sorting permutation of three cells with a tie -/
example : ([2, 0, 1] : List ℕ).Nodup ∧ rescaled (fun i => (i : ℝ) + 1) [2, 0, 1] 0 = 3 := by
  refine ⟨by decide, ?_⟩
  have := rescaled_eq_prefix_sum (fun i => (i : ℝ) + 1) [2, 0, 1] (by decide) 1 (by decide)
  have e : ([2, 0, 1] : List ℕ)[1] = 0 := rfl
  rw [e] at this
  rw [this]
  simp [Finset.sum_range_one]
  norm_num

end BLDFM.C20
