/-
  C11 — output keeps the input grid for any size parity, halo and mode count;
  truncation / un-truncation keep every retained component at its own frequency for
  even AND odd padded sizes; clamp rule; odd mode counts rejected.
-/
import Proofs.Lemmas.Spec
import Proofs.Lemmas.Tactics
import Proofs.Lemmas.Index

open BLDFM BLDFM.Spec BLDFM.Index

namespace BLDFM.C11

/-- the returned fields have exactly the shape of the surface-flux field, one slice
per requested level, with coordinates `x = i·dx`, `y = j·dy` -/
theorem out_shape (req : SolveReq ℝ) :
    (solveOk RC req).ny = req.ny ∧ (solveOk RC req).nx = req.nx ∧
    (solveOk RC req).nlv = req.levels.length ∧
    (∀ i, (solveOk RC req).X i = (i : ℝ) * (req.xmx / (req.nx : ℝ))) ∧
    (∀ j, (solveOk RC req).Y j = (j : ℝ) * (req.ymx / (req.ny : ℝ))) := by
  simp [solveOk, geom, RC]

/-- registration: the value returned at `(j, i)` is the padded-domain field at
`(j + py, i + px)` (the crop starts at the pad widths) -/
theorem registered (req : SolveReq ℝ) (k j i : ℕ) (hk : k < req.levels.length) :
    let g := geom RC req
    let f := fieldsAt RC req g (srcSpectrum RC req g).get (req.levels[k])
    (solveOk RC req).conc k j i = (f.1.get (j + g.py) (i + g.px)).re ∧
    (solveOk RC req).flx k j i = (f.2.get (j + g.py) (i + g.px)).re := by
  have hget : req.levels.toArray.getD k 0 = req.levels[k] := by simp [Array.getD, hk]
  simp only [solveOk, Tab1.get_tab, hget, RC]
  constructor <;> first | rfl | trivial

/-- un-truncation puts slot `(a, b)` of the truncated spectrum at the full-spectrum
position of ITS signed frequency, for both parities of the padded sizes … -/
theorem untrunc_hit (g : Geom ℝ) (T : ℕ → ℕ → ℂ) (a b : ℕ)
    (hy : Admissible g.nye g.nly) (hx : Admissible g.nxe g.nlx)
    (hdy : g.dly = (g.nye - g.nly) / 2) (hdx : g.dlx = (g.nxe - g.nlx) / 2)
    (ha : a < g.nly) (hb : b < g.nlx) :
    untrunc g T (slotPos g.nye g.nly a) (slotPos g.nxe g.nlx b) = T a b := by
  obtain ⟨⟨wy1, wy2⟩, ey⟩ := untrunc_index_hit g.nye g.nly a hy ha
  obtain ⟨⟨wx1, wx2⟩, ex⟩ := untrunc_index_hit g.nxe g.nlx b hx hb
  unfold untrunc
  simp only [hdy, hdx]
  rw [if_pos ⟨wy1, wy2, wx1, wx2⟩, ey, ex]

/-- … and every other in-range entry of the full spectrum is zero -/
theorem untrunc_miss (g : Geom ℝ) (T : ℕ → ℕ → ℂ) (A B : ℕ)
    (hy : Admissible g.nye g.nly) (hx : Admissible g.nxe g.nlx)
    (hdy : g.dly = (g.nye - g.nly) / 2) (hdx : g.dlx = (g.nxe - g.nlx) / 2)
    (hA : A < g.nye) (hB : B < g.nxe)
    (hno : ¬∃ a b, a < g.nly ∧ b < g.nlx ∧ slotPos g.nye g.nly a = A ∧ slotPos g.nxe g.nlx b = B) :
    untrunc g T A B = 0 := by
  unfold untrunc
  simp only [hdy, hdx]
  split
  · rename_i h
    exfalso
    obtain ⟨a, ha, hsa, _⟩ := untrunc_index_window g.nye g.nly A hy hA ⟨h.1, h.2.1⟩
    obtain ⟨b, hb, hsb, _⟩ := untrunc_index_window g.nxe g.nlx B hx hB ⟨h.2.2.1, h.2.2.2⟩
    exact hno ⟨a, b, ha, hb, hsa, hsb⟩
  · norm_num

/-- truncation reads slot `(a, b)` from the full-spectrum position of its signed frequency -/
theorem trunc_hit (g : Geom ℝ) (a b : ℕ)
    (hy : Admissible g.nye g.nly) (hx : Admissible g.nxe g.nlx)
    (hdy : g.dly = (g.nye - g.nly) / 2) (hdx : g.dlx = (g.nxe - g.nlx) / 2)
    (ha : a < g.nly) (hb : b < g.nlx) :
    truncSrc g.nye g.nly g.dly a = slotPos g.nye g.nly a ∧
    truncSrc g.nxe g.nlx g.dlx b = slotPos g.nxe g.nlx b := by
  rw [hdy, hdx]
  exact ⟨trunc_index _ _ _ hy ha, trunc_index _ _ _ hx hb⟩

/-- accessor facts of the derived geometry (all by unfolding) -/
theorem geom_nxe (req : SolveReq ℝ) : (geom RC req).nxe = req.nx + 2 * (geom RC req).px := rfl
theorem geom_nye (req : SolveReq ℝ) : (geom RC req).nye = req.ny + 2 * (geom RC req).py := rfl
theorem geom_nl (req : SolveReq ℝ) :
    (geom RC req).nlx = (clampModes req.nlx req.nly (geom RC req).nxe (geom RC req).nye).1 ∧
    (geom RC req).nly = (clampModes req.nlx req.nly (geom RC req).nxe (geom RC req).nye).2 := ⟨rfl, rfl⟩
theorem geom_dl (req : SolveReq ℝ) :
    (geom RC req).dlx = ((geom RC req).nxe - (geom RC req).nlx) / 2 ∧
    (geom RC req).dly = ((geom RC req).nye - (geom RC req).nly) / 2 := ⟨rfl, rfl⟩

/-- the geometry computed by the model satisfies the hypotheses above for every
request that passes the even-modes check (any parity of `nx`, `ny`, any halo) -/
theorem geom_admissible (req : SolveReq ℝ) (hnx : 0 < req.nx) (hny : 0 < req.ny)
    (hex : req.nlx % 2 = 0) (hey : req.nly % 2 = 0) (hpx : 0 < req.nlx) (hpy : 0 < req.nly) :
    let g := geom RC req
    Admissible g.nye g.nly ∧ Admissible g.nxe g.nlx ∧
      g.dly = (g.nye - g.nly) / 2 ∧ g.dlx = (g.nxe - g.nlx) / 2 := by
  intro g
  have hx : 0 < g.nxe := by rw [geom_nxe]; omega
  have hy : 0 < g.nye := by rw [geom_nye]; omega
  have h := clamp_admissible req.nlx req.nly g.nxe g.nye hx hy hex hey hpx hpy
  rw [← (geom_nl req).1, ← (geom_nl req).2] at h
  exact ⟨h.2, h.1, (geom_dl req).2, (geom_dl req).1⟩

/-- clamp: when either mode count exceeds its padded size, both are reset to the padded
sizes (as coded: "Setting both equal") … -/
theorem clamp_taken (req : SolveReq ℝ)
    (hover : req.nlx > (geom RC req).nxe ∨ req.nly > (geom RC req).nye) :
    (geom RC req).nlx = (geom RC req).nxe ∧ (geom RC req).nly = (geom RC req).nye := by
  obtain ⟨h1, h2⟩ := geom_nl req
  rw [h1, h2]
  simp only [clampModes, hover, if_true, and_self]

/-- … so the request equals the one with exactly as many modes as the padded grid holds -/
theorem clamp_equiv (req : SolveReq ℝ)
    (hover : req.nlx > (geom RC req).nxe ∨ req.nly > (geom RC req).nye) :
    geom RC { req with nlx := (geom RC req).nxe, nly := (geom RC req).nye } = geom RC req := by
  have h := clamp_taken req hover
  have hx : (geom RC { req with nlx := (geom RC req).nxe, nly := (geom RC req).nye }).nxe = (geom RC req).nxe := rfl
  have hy : (geom RC { req with nlx := (geom RC req).nxe, nly := (geom RC req).nye }).nye = (geom RC req).nye := rfl
  obtain ⟨g1, g2⟩ := geom_nl { req with nlx := (geom RC req).nxe, nly := (geom RC req).nye }
  rw [hx, hy] at g1 g2
  have c : clampModes (geom RC req).nxe (geom RC req).nye (geom RC req).nxe (geom RC req).nye
      = ((geom RC req).nxe, (geom RC req).nye) := by
    simp [clampModes]
  simp only [c] at g1 g2
  -- all other fields coincide by unfolding
  have : ∀ g g' : Geom ℝ, g.dx = g'.dx → g.dy = g'.dy → g.halo = g'.halo → g.px = g'.px → g.py = g'.py →
      g.nxe = g'.nxe → g.nye = g'.nye → g.nlx = g'.nlx → g.nly = g'.nly → g.dlx = g'.dlx → g.dly = g'.dly → g = g' := by
    intro g g' a b c d e f h i j k l
    cases g; cases g'; simp_all
  refine this (geom RC { req with nlx := (geom RC req).nxe, nly := (geom RC req).nye }) (geom RC req)
    rfl rfl rfl rfl rfl rfl rfl (by rw [g1, h.1]) (by rw [g2, h.2]) ?_ ?_
  · rw [(geom_dl _).1, (geom_dl req).1, g1, h.1, hx]
  · rw [(geom_dl _).2, (geom_dl req).2, g2, h.2, hy]

/-- a request within the padded size is left alone by the clamp -/
theorem no_clamp (req : SolveReq ℝ)
    (hin : req.nlx ≤ (geom RC req).nxe ∧ req.nly ≤ (geom RC req).nye) :
    (geom RC req).nlx = req.nlx ∧ (geom RC req).nly = req.nly := by
  obtain ⟨h1, h2⟩ := geom_nl req
  rw [h1, h2]
  have : ¬(req.nlx > (geom RC req).nxe ∨ req.nly > (geom RC req).nye) := by omega
  simp only [clampModes, this, if_false, and_self]

/-- odd mode counts are rejected with a ValueError before anything else -/
theorem odd_modes_rejected (req : SolveReq ℝ) (h : req.nlx % 2 = 1 ∨ req.nly % 2 = 1) :
    solve RC req = .error .valueError := by
  have h1 : req.nlx % 2 > 0 ∨ req.nly % 2 > 0 := by omega
  simp [solve, solveErr, h1]

/-! non-vacuity: odd padded size with an even mode count is admissible
(`N = 5, nl = 2`: the case the pinned tree mis-registered), and the slot positions are
`f(0) = 0`, `f(1) = -1 ≡ 4` -/
example : Admissible 5 2 ∧ slotPos 5 2 0 = 0 ∧ slotPos 5 2 1 = 4 ∧ truncSrc 5 2 ((5 - 2) / 2) 1 = 4 := by
  refine ⟨⟨by norm_num, by norm_num, Or.inl rfl⟩, rfl, rfl, by decide⟩

end BLDFM.C11
