import BLDFM.Scalar
import BLDFM.Column
import BLDFM.Grid
import BLDFM.Solver
import BLDFM.Geo
import BLDFM.Pbl
import BLDFM.Met
import BLDFM.SourceArea
