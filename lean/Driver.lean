/-
  Line-protocol driver: one request per line on stdin, one answer per line on
  stdout.  Runs the Float instance of the model the theorems are about.
  Floats are 16 hex digits of the IEEE-754 bit pattern.  Anything that cannot be
  parsed is answered with `bad-op` (never defaulted).
-/
import BLDFM

open BLDFM

abbrev P := StateT (Array String × Nat) Option

def tok : P String := do
  let (a, i) ← get
  if h : i < a.size then
    set (a, i + 1)
    pure a[i]
  else failure

def pNat : P Nat := do
  let t ← tok
  match t.toNat? with
  | some n => pure n
  | none => failure

def pFloat : P Float := do
  let t ← tok
  match parseFloatHex t with
  | some x => pure x
  | none => failure

def pBool : P Bool := do
  let t ← tok
  if t == "1" then pure true else if t == "0" then pure false else failure

def pOptFloat : P (Option Float) := do
  let (a, i) ← get
  if h : i < a.size then
    if a[i] == "none" then
      set (a, i + 1)
      pure none
    else
      let x ← pFloat
      pure (some x)
  else failure

def pArr (n : Nat) : P (Array Float) := do
  let mut out := Array.mkEmpty n
  for _ in [0:n] do
    out := out.push (← pFloat)
  pure out

def pNats (n : Nat) : P (List Nat) := do
  let mut out := #[]
  for _ in [0:n] do
    out := out.push (← pNat)
  pure out.toList

def pEnd : P Unit := do
  let (a, i) ← get
  if i == a.size then pure () else failure

def errName : ErrKind → String
  | .valueError => "ValueError"
  | .indexError => "IndexError"
  | .other => "Other"

def fl (xs : Array Float) : String :=
  xs.foldl (fun s x => s ++ " " ++ floatToHex x) ""

def idx (a : Array Float) (i : Nat) : Float := a.getD i 0.0

def pSolve : P String := do
  let fp ← pBool
  let an ← pBool
  let precT ← tok
  let prec := if precT == "single" then Precision.single
              else if precT == "double" then Precision.double else Precision.bad
  let nx ← pNat
  let ny ← pNat
  let nz ← pNat
  let xmx ← pFloat
  let ymx ← pFloat
  let halo ← pOptFloat
  let nlx ← pNat
  let nly ← pNat
  let xm ← pFloat
  let ym ← pFloat
  let bg ← pFloat
  let nlv ← pNat
  let levels ← pNats nlv
  let z ← pArr nz
  let u ← pArr nz
  let v ← pArr nz
  let kx ← pArr nz
  let ky ← pArr nz
  let kz ← pArr nz
  let q ← pArr (ny * nx)
  pEnd
  if nx == 0 || ny == 0 || nz == 0 then failure
  match halo with
  | some h => if h < 0.0 then failure
  | none => pure ()
  let req : SolveReq Float :=
    { ny := ny, nx := nx, nz := nz, q := fun j i => idx q (j * nx + i), z := idx z,
      P := { u := idx u, v := idx v, Kx := idx kx, Ky := idx ky, Kz := idx kz },
      xmx := xmx, ymx := ymx, levels := levels, nlx := nlx, nly := nly, xm := xm, ym := ym,
      bg := bg, footprint := fp, analytic := an, halo := halo, precision := prec }
  match solve FloatFns req with
  | .error e => pure s!"err {errName e}"
  | .ok o =>
    let mut s := s!"ok {o.nlv} {o.ny} {o.nx}"
    for k in [0:o.nlv] do
      s := s ++ " " ++ floatToHex (o.Z k)
    for i in [0:o.nx] do
      s := s ++ " " ++ floatToHex (o.X i)
    for j in [0:o.ny] do
      s := s ++ " " ++ floatToHex (o.Y j)
    for k in [0:o.nlv] do
      for j in [0:o.ny] do
        for i in [0:o.nx] do
          s := s ++ " " ++ floatToHex (o.conc k j i)
    for k in [0:o.nlv] do
      for j in [0:o.ny] do
        for i in [0:o.nx] do
          s := s ++ " " ++ floatToHex (o.flx k j i)
    pure s

def okLine (xs : Array Float) : String := "ok" ++ fl xs

def pWind : P String := do
  let s ← pFloat
  let wd ← pFloat
  pEnd
  let r := windFields FloatFns s wd
  pure (okLine #[r.1, r.2])

/-- `src nx ny xmx ymx (N | xs ys) shape` → all cells, row-major -/
def pSrc : P String := do
  let nx ← pNat
  let ny ← pNat
  let xmx ← pFloat
  let ymx ← pFloat
  let t ← tok
  let loc ← (if t == "N" then pure none else do
    let xs ← (match parseFloatHex t with | some v => pure v | none => failure)
    let ys ← pFloat
    pure (some (xs, ys)))
  let sh ← tok
  pEnd
  let shape := if sh == "diamond" then SrcShape.diamond else if sh == "circle" then SrcShape.circle
    else if sh == "point" then SrcShape.point else SrcShape.other
  let mut out : Array Float := #[]
  for j in [0:ny] do
    for i in [0:nx] do
      out := out.push (idealSource FloatFns nx ny xmx ymx loc shape j i)
  pure (okLine out)

/-- `pm ny nx f… g…` → `point_measurement` -/
def pPm : P String := do
  let ny ← pNat
  let nx ← pNat
  let mut f : Array Float := #[]
  for _ in [0:ny * nx] do
    f := f.push (← pFloat)
  let mut g : Array Float := #[]
  for _ in [0:ny * nx] do
    g := g.push (← pFloat)
  pEnd
  pure (okLine #[pointMeasurement ny nx (fun j i => f.getD (j * nx + i) 0.0) (fun j i => g.getD (j * nx + i) 0.0)])

def pLl2xy : P String := do
  let a ← pFloat
  let b ← pFloat
  let c ← pFloat
  let d ← pFloat
  pEnd
  let r := latlonToXy FloatFns a b c d
  pure (okLine #[r.1, r.2])

def pXy2ll : P String := do
  let a ← pFloat
  let b ← pFloat
  let c ← pFloat
  let d ← pFloat
  pEnd
  let r := xyToLatlon FloatFns a b c d
  pure (okLine #[r.1, r.2])

def pPsi (phiQ : Bool) : P String := do
  let x ← pFloat
  pEnd
  pure (okLine #[if phiQ then phi FloatFns x else psi FloatFns x])

def pProfiles : P String := do
  let cl ← tok
  let closure := if cl == "MOST" then Closure.most else if cl == "MOSTM" then Closure.mostm
    else if cl == "CONSTANT" then Closure.constant else if cl == "OAAHOC" then Closure.oaahoc else Closure.invalid
  let n ← pNat
  let zm ← pFloat
  let um ← pFloat
  let vm ← pFloat
  let ustar ← pOptFloat
  let z0 ← pOptFloat
  let mol ← pFloat
  let prsc ← pFloat
  let dh ← pOptFloat
  let st ← pOptFloat
  let tke ← pOptFloat
  pEnd
  if n == 0 then failure
  let q : PblReq Float :=
    { n := n, zm := zm, um := um, vm := vm, ustar := ustar, z0 := z0, mol := mol, prsc := prsc,
      closure := closure, domainHeight := dh, stretch := st, tke := tke }
  match verticalProfiles FloatFns q with
  | .error e => pure s!"err {errName e}"
  | .ok o =>
    if o.len > 100000 then failure
    let mut xs : Array Float := #[Float.ofNat o.len]
    for f in [o.z, o.P.u, o.P.v, o.P.Kx, o.P.Ky, o.P.Kz] do
      for k in [0:o.len] do
        xs := xs.push (f k)
    pure (okLine xs)

def parseInts (s : String) : Option (List Int) :=
  if s.isEmpty then some [] else
  (s.splitOn ",").foldr (fun t acc => match acc, t.toInt? with
    | some l, some v => some (v :: l)
    | _, _ => none) (some [])

def pMetVal : P MetVal := do
  let t ← tok
  if t == "N" then pure MetVal.none
  else if t.startsWith "S:" then
    match (t.drop 2).toString.toInt? with
    | some v => pure (MetVal.scalar v)
    | none => failure
  else if t.startsWith "L:" then
    match parseInts (t.drop 2).toString with
    | some l => pure (MetVal.list l)
    | none => failure
  else failure

def showOpt : Option Int → String
  | some v => toString v
  | none => "N"

def pMet : P String := do
  let us ← pMetVal
  let mo ← pMetVal
  let ws ← pMetVal
  let wd ← pMetVal
  let z0v ← pMetVal
  let tsv ← pMetVal
  let nq ← pNat
  pEnd
  let z0 ← match z0v with
    | .none => pure none
    | .scalar x => pure (some x)
    | .list _ => failure
  let ts ← match tsv with
    | .none => pure none
    | .list l => pure (some l)
    | .scalar _ => failure
  let m : MetCfg := { ustar := us, mol := mo, windSpeed := ws, windDir := wd, z0 := z0, timestamps := ts }
  let mut out := s!"ok {if m.validate then 1 else 0} {m.nTimesteps}"
  for i in [0:nq] do
    match m.getStep i with
    | .error _ => out := out ++ " | E"
    | .ok st =>
      let tss := match st.timestamp with
        | .inl t => s!"t{t}"
        | .inr k => s!"i{k}"
      out := out ++ s!" | {showOpt st.ustar} {showOpt st.mol} {showOpt st.windSpeed} {showOpt st.windDir} {showOpt st.z0} {tss}"
  pure out

def pSa : P String := do
  let n ← pNat
  let f ← pArr n
  let perm ← pNats n
  pEnd
  let out := (List.range n).map (fun c => rescaled (fun i => idx f i) perm c)
  pure (okLine out.toArray)

def pPct : P String := do
  let n ← pNat
  let sorted ← pArr n
  let cell ← pFloat
  let pct ← pFloat
  pEnd
  if n == 0 then failure
  let r := percentileContour FloatFns (fun i => idx sorted i) n cell pct
  pure (okLine #[r.1, r.2])

def pBase : P String := do
  let kind ← tok
  let x ← pFloat
  let y ← pFloat
  let xm ← pFloat
  let ym ← pFloat
  let u ← pFloat
  let v ← pFloat
  pEnd
  if kind == "circular" then pure (okLine #[baseCircular x y xm ym])
  else if kind == "upwind" then pure (okLine #[baseUpwind FloatFns x y xm ym u v])
  else if kind == "crosswind" then pure (okLine #[baseCrosswind FloatFns x y xm ym u v])
  else if kind == "sector" then pure (okLine #[baseSector FloatFns x y xm ym u v])
  else failure

def pKm : P String := do
  let zm ← pFloat
  let z0 ← pFloat
  let ws ← pFloat
  let us ← pFloat
  let L ← pFloat
  let sv ← pFloat
  let res ← pFloat
  let mx ← pFloat
  let my ← pFloat
  let wd ← pOptFloat
  let npts ← pNat
  let pts ← pArr (2 * npts)
  pEnd
  let p := kmPar FloatFns zm z0 ws us L sv
  let mut xs : Array Float := #[p.m, p.n, p.kappa, p.U, p.r, p.mu, p.Xi, p.A]
  for k in [0:npts] do
    xs := xs.push (kmFootprint FloatFns zm z0 ws us L sv res (idx pts (2 * k)) (idx pts (2 * k + 1)) mx my wd)
  pure (okLine xs)

def pKmz0 : P String := do
  let zm ← pFloat
  let ws ← pFloat
  let us ← pFloat
  let L ← pFloat
  pEnd
  pure (okLine #[kmZ0 FloatFns zm ws us L, kmPhiM FloatFns zm L, kmPhiC FloatFns zm L, kmPsiM FloatFns zm L,
    kmM FloatFns zm ws us L, kmN zm L])

def showOptNat : Option Nat → String
  | some v => toString v
  | none => "N"

/-- `rt <nops> ops…`: `T n` set threads, `S req fp an` solve, `F` module-level fft2, `Z` reset FFT manager,
`W` worker reset.  Answers `| threads mgr pyfftw serial parallel [out]` after every op. -/
def pRt : P String := do
  let n ← pNat
  let mut ops : List RtOp := []
  for _ in [0:n] do
    let t ← tok
    if t == "T" then ops := ops ++ [RtOp.setThreads (← pNat)]
    else if t == "S" then
      let r ← pNat
      let fp ← pBool
      let an ← pBool
      ops := ops ++ [RtOp.solve { req := r, footprint := fp, analytic := an }]
    else if t == "F" then ops := ops ++ [RtOp.fft2]
    else if t == "Z" then ops := ops ++ [RtOp.resetFft]
    else if t == "W" then ops := ops ++ [RtOp.workerReset]
    else failure
  pEnd
  let mut s := RtState.init
  let mut out := "ok"
  for op in ops do
    let (s', o) := rtStep s op
    s := s'
    out := out ++ s!" | {s.numThreads} {showOptNat s.fftMgr} {showOptNat s.pyfftwThreads} {s.compiledSerial} {s.compiledParallel}"
    match o with
    | some r => out := out ++ s!" out:{r.req}:{r.parallelKernel}"
    | none => pure ()
  pure out

/-- `par <towers|time|both|other> <ntowers> <ntime> <nsched> sched…`: nested result labels `name:step` -/
def pPar : P String := do
  let st ← tok
  let strategy := if st == "towers" then Strategy.towers else if st == "time" then Strategy.time
    else if st == "both" then Strategy.both else Strategy.invalid
  let nt ← pNat
  let ntime ← pNat
  let ns ← pNat
  let sched ← pNats ns
  pEnd
  let towers : List TowerCfg := (List.range nt).map (fun k => { name := Int.ofNat (100 + k), x := 0, y := 0, zm := 0 })
  match runParallel strategy towers ntime (fun t i => s!"{t.name}:{i}") sched with
  | .error e => pure s!"err {errName e}"
  | .ok res =>
    let mut out := "ok"
    for (name, series) in res do
      out := out ++ s!" [{name}"
      for x in series do
        out := out ++ " " ++ (match x with | some l => l | none => "?")
      out := out ++ "]"
    pure out

/-- `nc <nres> names… <nsteps> <ncfg> cfgnames… <z0forcing 0/1>`: synthetic results whose values encode
(tower name, step); prints what every cell / label / metadata slot of the written dataset holds -/
def pNc : P String := do
  let nres ← pNat
  let names ← pNats nres
  let nsteps ← pNat
  let ncfg ← pNat
  let cfgnames ← pNats ncfg
  let z0f ← pBool
  let gk ← pNat
  pEnd
  -- grid kind: 0 = 2-D meshgrids, 1 = 3-D meshgrids (levels DESCENDING), 2 = coordinate vectors; 5 x 4 (x 3) nodes
  let xs : Nat → V := fun i => Int.ofNat (10 * i)
  let ys : Nat → V := fun j => Int.ofNat (10 * j + 1)
  let zs : Nat → V := fun k => Int.ofNat (302 - 100 * k)
  let grid : NcGrid := if gk == 1 then .g3 (fun _ _ i => xs i) (fun _ j _ => ys j) (fun k _ _ => zs k)
    else if gk == 0 then .g2 (fun _ i => xs i) (fun j _ => ys j) else .g1 xs ys
  let mkRes : Nat → Nat → NcResult := fun name t =>
    { grid := grid, flx := fun c => Int.ofNat (name * 10000 + t * 100 + c), conc := fun c => -(Int.ofNat (name * 10000 + t * 100 + c)),
      timestamp := Int.ofNat (500 + t), ustar := if z0f then none else some (Int.ofNat (7000 + t)),
      mol := some (Int.ofNat (8000 + t)), windSpeed := some (Int.ofNat (9000 + t)), windDir := some (Int.ofNat (9500 + t)) }
  let results : List (V × List NcResult) := names.map (fun n => (Int.ofNat n, (List.range nsteps).map (mkRes n)))
  let towers : List NcTower := cfgnames.map (fun n => { name := Int.ofNat n, lat := Int.ofNat (n * 3 + 1), lon := Int.ofNat (n * 3 + 2), zm := Int.ofNat (n * 3 + 3) })
  let ds := ncSave results towers
  let mut out := "ok towers"
  for l in ds.towerLabels do out := out ++ s!" {l}"
  out := out ++ " times"
  for l in ds.timeLabels do out := out ++ s!" {l}"
  out := out ++ " cells"
  for t in [0:nsteps] do
    for ti in [0:nres] do
      out := out ++ s!" {ds.footprint t ti 0},{ds.footprint t ti 3},{ds.concentration t ti 1}"
  out := out ++ " met"
  for t in [0:nsteps] do
    out := out ++ s!" {showOpt (ds.ustar t)},{showOpt (ds.mol t)},{showOpt (ds.windSpeed t)},{showOpt (ds.windDir t)}"
  out := out ++ " meta"
  for ti in [0:nres] do
    out := out ++ s!" {showOpt (ds.towerLat ti)},{showOpt (ds.towerLon ti)},{showOpt (ds.towerZ ti)}"
  -- `ds.sel(tower=label)` / `ds.sel(time=label)`: index the label selects, for every label and for one that is absent
  let showIdx : Option Nat → String := fun o => match o with | some k => toString k | none => "N"
  out := out ++ " seltower"
  for l in ds.towerLabels ++ [99999] do out := out ++ s!" {showIdx (ds.selTower l)}"
  out := out ++ " seltime"
  for l in ds.timeLabels ++ [99999] do out := out ++ s!" {showIdx (ds.selTime l)}"
  out := out ++ s!" dims {ds.nTime} {ds.nTowers} x"
  for i in [0:5] do out := out ++ s!" {ds.x i}"
  out := out ++ " y"
  for j in [0:4] do out := out ++ s!" {ds.y j}"
  out := out ++ " z"
  match ds.z with
  | some f => for k in [0:3] do out := out ++ s!" {f k}"
  | none => out := out ++ " none"
  pure out

def pInt : P Int := do
  let t ← tok
  match t.toInt? with
  | some v => pure v
  | none => failure

def pOptInt : P (Option Int) := do
  let (a, i) ← get
  if h : i < a.size then
    if a[i] == "N" then
      set (a, i + 1)
      pure none
    else
      let x ← pInt
      pure (some x)
  else failure

def pMetCfg : P MetCfg := do
  let us ← pMetVal
  let mo ← pMetVal
  let ws ← pMetVal
  let wd ← pMetVal
  let z0v ← pMetVal
  let tsv ← pMetVal
  let z0 ← match z0v with
    | .none => pure none
    | .scalar x => pure (some x)
    | .list _ => failure
  let ts ← match tsv with
    | .none => pure none
    | .list l => pure (some l)
    | .scalar _ => failure
  pure { ustar := us, mol := mo, windSpeed := ws, windDir := wd, z0 := z0, timestamps := ts }

def showLevels : LevelsArg → String
  | .list ls => "L:" ++ String.intercalate "," (ls.map toString)
  | .scalar l => s!"S:{l}"

def showTs : Int ⊕ Nat → String
  | .inl t => s!"t{t}"
  | .inr k => s!"i{k}"

def showCalls (c : SingleCalls) : String :=
  let src := match c.idealSource with
    | some (a, b, x, y, sl, sh) => s!"ideal {a} {b} {x} {y} {showOpt sl} {sh}"
    | none => "user"
  s!"wind {showOpt c.windSpeed} {showOpt c.windDir} prof {c.profN} {c.profZm} {showOpt c.profUstar} {showOpt c.profZ0} {showOpt c.profMol} {c.profClosure} src {src} {showOpt c.userFlux} " ++
  s!"sol {c.solDomain.1} {c.solDomain.2} {showLevels c.solLevels} {c.solModes} {c.solMeasPt.1} {c.solMeasPt.2} {c.solFootprint} {c.solAnalytic} {showOpt c.solHalo} {c.solPrecision} {showOpt c.solCache} " ++
  s!"lab {c.towerName} {c.towerXY.1} {c.towerXY.2} {showTs c.timestamp} {showOpt c.params.ustar} {showOpt c.params.mol} {showOpt c.params.windSpeed} {showOpt c.params.windDir} {showOpt c.params.z0}"

def pDomSol : P (DomainCfg × SolverCfg) := do
  let nx ← pInt
  let ny ← pInt
  let xmax ← pInt
  let ymax ← pInt
  let nz ← pNat
  let modes ← pInt
  let halo ← pOptInt
  let olk ← tok
  let ol ← (if olk == "N" then pure none
    else if olk.startsWith "L:" then
      match parseInts (olk.drop 2).toString with
      | some l => pure (some (l.map Int.toNat))
      | none => failure
    else failure : P (Option (List Nat)))
  let full ← pBool
  let closure ← pInt
  let prec ← pInt
  let fp ← pBool
  let an ← pBool
  let shape ← pInt
  let srcloc ← pOptInt
  pure ({ nx := nx, ny := ny, xmax := xmax, ymax := ymax, nz := nz, modes := modes, halo := halo,
          outputLevels := ol, fullOutput := full },
        { closure := closure, precision := prec, footprint := fp, analytic := an, shape := shape, srcLoc := srcloc })

def pTower : P TowerCfg := do
  let name ← pInt
  let x ← pInt
  let y ← pInt
  let zm ← pInt
  pure { name := name, x := x, y := y, zm := zm }

def pSingle : P String := do
  let (dom, sol) ← pDomSol
  let tower ← pTower
  let met ← pMetCfg
  let i ← pNat
  let flux ← pOptInt
  let cache ← pOptInt
  pEnd
  match runSingle dom sol met tower i flux cache with
  | .error e => pure s!"err {errName e}"
  | .ok c => pure ("ok " ++ showCalls c)

/-- `cachehist <keyfield bits x12> <resGet> <resPut> <atomic> <guarded> <ndflt> (dom halo)* <nops> ops…`
ops: `R v0 … v11 hn` request, `C v0 … v11 hn` interrupted store, `X` restart.
answers one token per request: `H` hit, `M` miss, `E` error; the result is modelled by the
request's determining values (a hit is marked `H!` if it returns another request's result). -/
def pCacheHist : P String := do
  let mut kf : List Fld := []
  for f in Fld.all do
    if (← pBool) then kf := kf ++ [f]
  let rg ← pBool
  let rp ← pBool
  let aw ← pBool
  let gd ← pBool
  let cfg : CacheCfg := { keyFields := kf, haloResolvedAtGet := rg, haloResolvedAtPut := rp, atomicWrite := aw, guardedLoad := gd }
  let nd ← pNat
  let mut tbl : List (Nat × Nat) := []
  for _ in [0:nd] do
    let a ← pNat
    let b ← pNat
    tbl := (a, b) :: tbl
  let dflt : Nat → Nat := fun d => match tbl.find? (fun p => p.1 == d) with
    | some p => p.2
    | none => 1000000 + d
  let nops ← pNat
  let mut ops : List COp := []
  for _ in [0:nops] do
    let t ← tok
    if t == "X" then ops := ops ++ [COp.restart]
    else
      let vs ← pNats 12
      let hn ← pBool
      let r : CReq := { val := fun f => vs.getD (Fld.all.idxOf f) 0, haloNone := hn }
      if t == "R" then ops := ops ++ [COp.request r]
      else if t == "C" then ops := ops ++ [COp.crash r]
      else if t == "T" then ops := ops ++ [COp.truncate r]
      else failure
  pEnd
  let solve : CReq → List Nat := fun r => r.determ dflt
  let (ans, _) := runHistory cfg dflt solve [] ops
  let reqs := ops.filterMap (fun o => match o with | .request r => some r | _ => none)
  let mut out := "ok"
  for (a, r) in ans.zip reqs do
    out := out ++ (match a with
      | .hit res => if res == solve r then " H" else " H!"
      | .miss _ => " M"
      | .error => " E")
  pure out

/-- `proto <atomic> <tempPerProcess> <initRemoves> <guarded> <nsteps> steps…`
steps: `I pid` construct, `B pid k res` savez starts, `E pid` savez completes, `N pid` os.replace,
`G pid k` get, `K pid` the process dies.  One token per step: `ok`, `hit:<res>`, `miss`, `fail`, `stuck`;
then `| entries` followed by `k=<res>` / `k=torn` for every key in 0..9 that has an entry. -/
def pProto : P String := do
  let aw ← pBool
  let tp ← pBool
  let ir ← pBool
  let gd ← pBool
  let cfg : ProtoCfg := { atomicWrite := aw, tempPerProcess := tp, initRemovesTemps := ir, guardedLoad := gd }
  let n ← pNat
  let mut steps : List PStep := []
  for _ in [0:n] do
    let t ← tok
    if t == "I" then steps := steps ++ [PStep.init (← pNat)]
    else if t == "B" then
      let pid ← pNat
      let k ← pNat
      let r ← pNat
      steps := steps ++ [PStep.beginWrite pid k r]
    else if t == "E" then steps := steps ++ [PStep.endWrite (← pNat)]
    else if t == "N" then steps := steps ++ [PStep.rename (← pNat)]
    else if t == "G" then
      let pid ← pNat
      let k ← pNat
      steps := steps ++ [PStep.read pid k]
    else if t == "K" then steps := steps ++ [PStep.crash (← pNat)]
    else failure
  pEnd
  let (w, outs) := prun cfg { fs := [], procs := [] } steps
  let mut out := "ok"
  for o in outs do
    out := out ++ (match o with
      | .ok => " ok"
      | .hit r => s!" hit:{r}"
      | .miss => " miss"
      | .fail => " fail"
      | .stuck => " stuck")
  out := out ++ " | entries"
  for k in [0:10] do
    match w.fs.look (.final k) with
    | some (.full r) => out := out ++ s!" {k}={r}"
    | some .torn => out := out ++ s!" {k}=torn"
    | none => pure ()
  pure out

def dispatch : P String := do
  let op ← tok
  if op == "solve" then pSolve
  else if op == "wind" then pWind
  else if op == "src" then pSrc
  else if op == "pm" then pPm
  else if op == "ll2xy" then pLl2xy
  else if op == "xy2ll" then pXy2ll
  else if op == "psi" then pPsi false
  else if op == "phi" then pPsi true
  else if op == "profiles" then pProfiles
  else if op == "met" then pMet
  else if op == "sa" then pSa
  else if op == "pct" then pPct
  else if op == "base" then pBase
  else if op == "km" then pKm
  else if op == "kmz0" then pKmz0
  else if op == "cachehist" then pCacheHist
  else if op == "proto" then pProto
  else if op == "single" then pSingle
  else if op == "rt" then pRt
  else if op == "par" then pPar
  else if op == "nc" then pNc
  else failure

def handle (line : String) : String :=
  let toks := (line.splitOn " ").filter (fun t => !t.isEmpty)
  match (dispatch.run (toks.toArray, 0)) with
  | some (s, _) => s
  | none => "bad-op"

partial def loop (h : IO.FS.Stream) (out : IO.FS.Stream) : IO Unit := do
  let line ← h.getLine
  if line.isEmpty then return ()
  let l := line.trimAscii.toString
  if !l.isEmpty then
    out.putStrLn (handle l)
  loop h out

def main : IO Unit := do
  let i ← IO.getStdin
  let o ← IO.getStdout
  loop i o
  o.flush
